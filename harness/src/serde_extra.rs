//! Oracle-only part of the serde checks (C04, C14, C18): types of the standard library whose `Serialize` /
//! `Deserialize` impls are built from the Serde data model in ways `derive` never produces (they consult
//! `is_human_readable`, use `serialize_key` / `serialize_value`, newtype wrappers, fixed-size arrays, ranges …),
//! and hand-written streaming impls.  These types have no `Ty` term in the Lean model; the property's own
//! statement (value round trip, text round trip, documented shape) is evaluated on the real code.
#![allow(uncommon_codepoints)]
use crate::rng::Rng;
use lexpr::Value;
use serde::de::DeserializeOwned;
use serde::ser::SerializeMap;
use serde::{Deserialize, Serialize};
use serde_derive::{Deserialize, Serialize};
use std::collections::{BTreeMap, HashMap, HashSet, LinkedList, VecDeque};
use std::fmt::Debug;
use std::net::{IpAddr, Ipv4Addr, Ipv6Addr, SocketAddr, SocketAddrV4, SocketAddrV6};
use std::panic::{catch_unwind, AssertUnwindSafe};

fn rt<T: Serialize + DeserializeOwned + PartialEq + Debug>(name: &str, x: &T, msgs: &mut Vec<String>) {
    let r = catch_unwind(AssertUnwindSafe(|| {
        let mut m = Vec::new();
        match serde_lexpr::to_value(x) {
            Ok(v) => match serde_lexpr::from_value::<T>(&v) {
                Ok(y) => if &y != x { m.push(format!("FAIL C04 value round trip of {} changed the data: {:?} -> {} -> {:?}", name, x, v, y)); },
                Err(e) => m.push(format!("FAIL C04 value round trip of {}: own serialization {} of {:?} rejected: {}", name, v, x, e)),
            },
            Err(e) => m.push(format!("FAIL C04 to_value failed for {} {:?}: {}", name, x, e)),
        }
        match serde_lexpr::to_string(x) {
            Ok(s) => {
                match serde_lexpr::from_str::<T>(&s) {
                    Ok(y) => if &y != x { m.push(format!("FAIL C04 text round trip of {} changed the data: {:?} -> {:?} -> {:?}", name, x, s, y)); },
                    Err(e) => m.push(format!("FAIL C04 text round trip of {}: own text {:?} rejected: {}", name, s, e)),
                }
                let a = serde_lexpr::from_slice::<T>(s.as_bytes()).ok();
                let b = serde_lexpr::from_reader::<T>(s.as_bytes()).ok();
                if a.as_ref() != serde_lexpr::from_str::<T>(&s).ok().as_ref() || a != b { m.push(format!("FAIL C04 text entry points disagree for {} on {:?}", name, s)); }
            }
            Err(e) => m.push(format!("FAIL C04 to_string failed for {} {:?}: {}", name, x, e)),
        }
        m
    }));
    match r { Ok(m) => msgs.extend(m), Err(_) => msgs.push(format!("FAIL C18 serde round trip of {} panicked", name)) }
}

/// a map written entry by entry with `serialize_key` then `serialize_value` (what streaming serializers and
/// transcoders do), read back in order
#[derive(Debug, PartialEq, Clone)]
pub struct StreamMap(pub Vec<(String, u32)>);
impl Serialize for StreamMap {
    fn serialize<S: serde::Serializer>(&self, s: S) -> Result<S::Ok, S::Error> {
        let mut m = s.serialize_map(Some(self.0.len()))?;
        for (k, v) in &self.0 { m.serialize_key(k)?; m.serialize_value(v)?; }
        m.end()
    }
}
impl<'de> Deserialize<'de> for StreamMap {
    fn deserialize<D: serde::Deserializer<'de>>(d: D) -> Result<Self, D::Error> {
        struct V;
        impl<'de> serde::de::Visitor<'de> for V {
            type Value = StreamMap;
            fn expecting(&self, f: &mut std::fmt::Formatter) -> std::fmt::Result { f.write_str("a map") }
            fn visit_map<A: serde::de::MapAccess<'de>>(self, mut a: A) -> Result<StreamMap, A::Error> {
                let mut out = Vec::new();
                while let Some(k) = a.next_key::<String>()? { let v = a.next_value::<u32>()?; out.push((k, v)); }
                Ok(StreamMap(out))
            }
        }
        d.deserialize_map(V)
    }
}

/// an identifier rustc accepts (XID_Start) whose first character is not `char::is_alphabetic`
#[derive(Serialize, Deserialize, Debug, PartialEq)]
pub struct Weierstrass { ℘: u8 }

#[derive(Serialize, Deserialize, Debug, PartialEq)]
pub struct Größe { größe: u8, λ: Option<i8> }

pub fn run(seed: u64) -> Vec<String> {
    let mut r = Rng::new(seed);
    let mut m = Vec::new();
    let b = |r: &mut Rng| -> u8 { *r.pick(&[0u8, 1, 9, 10, 127, 128, 255, 42]) };
    let v4 = Ipv4Addr::new(b(&mut r), b(&mut r), b(&mut r), b(&mut r));
    let mut seg = [0u16; 8]; for s in seg.iter_mut() { *s = *r.pick(&[0u16, 1, 0xffff, 0x2001, 0xdb8, 10]); }
    let v6 = Ipv6Addr::new(seg[0], seg[1], seg[2], seg[3], seg[4], seg[5], seg[6], seg[7]);
    let port = *r.pick(&[0u16, 1, 80, 65535]);
    rt("Ipv4Addr", &v4, &mut m);
    rt("Ipv6Addr", &v6, &mut m);
    rt("IpAddr", &IpAddr::V4(v4), &mut m);
    rt("IpAddr", &IpAddr::V6(v6), &mut m);
    rt("SocketAddr", &SocketAddr::V4(SocketAddrV4::new(v4, port)), &mut m);
    rt("SocketAddr", &SocketAddr::V6(SocketAddrV6::new(v6, port, 0, 0)), &mut m);
    rt("Vec<IpAddr>", &vec![IpAddr::V4(v4), IpAddr::V6(v6)], &mut m);
    rt("(IpAddr, u8)", &(IpAddr::V4(v4), b(&mut r)), &mut m);
    rt("Duration", &std::time::Duration::new(crate::gen::boundary_u64(&mut r), (r.below(1_000_000_000)) as u32), &mut m);
    rt("Range<u8>", &(b(&mut r)..b(&mut r)), &mut m);
    rt("RangeInclusive<i16>", &((b(&mut r) as i16 - 128)..=(b(&mut r) as i16)), &mut m);
    rt("Bound<u8>", &std::ops::Bound::Included(b(&mut r)), &mut m);
    rt("Bound<u8>", &std::ops::Bound::<u8>::Unbounded, &mut m);
    rt("Wrapping<i16>", &std::num::Wrapping(b(&mut r) as i16 - 200), &mut m);
    rt("Reverse<u8>", &std::cmp::Reverse(b(&mut r)), &mut m);
    if let Some(nz) = std::num::NonZeroU8::new(b(&mut r)) { rt("NonZeroU8", &nz, &mut m); }
    rt("Result<u8, String>", &(if r.chance(1, 2) { Ok(b(&mut r)) } else { Err::<u8, String>(crate::gen::gen_string(&mut r, 6)) }), &mut m);
    rt("Box<(u8, Option<u8>)>", &Box::new((b(&mut r), if r.chance(1, 2) { Some(b(&mut r)) } else { None })), &mut m);
    rt("[u8; 3]", &[b(&mut r), b(&mut r), b(&mut r)], &mut m);
    rt("[(u8, bool); 2]", &[(b(&mut r), true), (b(&mut r), false)], &mut m);
    rt("[u8; 0]", &([] as [u8; 0]), &mut m);
    rt("VecDeque<i8>", &(0..r.below(4)).map(|_| b(&mut r) as i8).collect::<VecDeque<i8>>(), &mut m);
    rt("LinkedList<String>", &(0..r.below(3)).map(|_| crate::gen::gen_string(&mut r, 4)).collect::<LinkedList<String>>(), &mut m);
    rt("HashMap<u8, u8>", &(0..r.below(5)).map(|_| (b(&mut r), b(&mut r))).collect::<HashMap<u8, u8>>(), &mut m);
    rt("HashSet<char>", &(0..r.below(5)).map(|_| crate::gen::gen_char(&mut r)).collect::<HashSet<char>>(), &mut m);
    rt("BTreeMap<(u8, u8), Vec<u8>>", &(0..r.below(4)).map(|_| ((b(&mut r), b(&mut r)), vec![b(&mut r)])).collect::<BTreeMap<(u8, u8), Vec<u8>>>(), &mut m);
    rt("PhantomData<u8>", &std::marker::PhantomData::<u8>, &mut m);
    rt("Cow<str>", &std::borrow::Cow::<str>::Owned(crate::gen::gen_string(&mut r, 6)), &mut m);
    rt("Option<Result<(), ()>>", &Some(Ok::<(), ()>(())), &mut m);
    rt("Größe", &Größe { größe: b(&mut r), λ: Some(-1) }, &mut m);
    rt("Weierstrass", &Weierstrass { ℘: b(&mut r) }, &mut m);
    // a hand-written streaming map: round trip keeps the entries in order, and the shape is the documented
    // association list of (key . value) cells
    let n = r.below(5);
    let sm = StreamMap((0..n).map(|i| (format!("k{}{}", i, crate::gen::gen_ident(&mut r)), r.below(1000) as u32)).collect());
    rt("StreamMap", &sm, &mut m);
    if let Ok(v) = serde_lexpr::to_value(&sm) {
        let want = Value::list(sm.0.iter().map(|(k, x)| Value::cons(Value::string(k.as_str()), Value::from(*x))).collect::<Vec<_>>());
        if v != want { m.push(format!("FAIL C14 a map written with serialize_key / serialize_value is {} instead of the association list {}", v, want)); }
    }
    m
}
