//! Oracle-only part of the serde checks (C04, C14, C18): types of the standard library whose `Serialize` /
//! `Deserialize` impls are built from the Serde data model in ways `derive` never produces (they consult
//! `is_human_readable`, use `serialize_key` / `serialize_value`, newtype wrappers, fixed-size arrays, ranges …),
//! and hand-written streaming impls.  These types have no `Ty` term in the Lean model; the property's own
//! statement (value round trip, text round trip, documented shape) is evaluated on the real code.
#![allow(uncommon_codepoints)]
use crate::rng::Rng;
use lexpr::Value;
use serde::de::DeserializeOwned;
use serde::ser::SerializeMap;
use serde::{Deserialize, Serialize};
use serde_derive::{Deserialize, Serialize};
use std::collections::{BTreeMap, HashMap, HashSet, LinkedList, VecDeque};
use std::fmt::Debug;
use std::net::{IpAddr, Ipv4Addr, Ipv6Addr, SocketAddr, SocketAddrV4, SocketAddrV6};
use std::panic::{catch_unwind, AssertUnwindSafe};

fn rt<T: Serialize + DeserializeOwned + PartialEq + Debug>(name: &str, x: &T, msgs: &mut Vec<String>) {
    let r = catch_unwind(AssertUnwindSafe(|| {
        let mut m = Vec::new();
        match serde_lexpr::to_value(x) {
            Ok(v) => match serde_lexpr::from_value::<T>(&v) {
                Ok(y) => if &y != x { m.push(format!("FAIL C04 value round trip of {} changed the data: {:?} -> {} -> {:?}", name, x, v, y)); },
                Err(e) => m.push(format!("FAIL C04 value round trip of {}: own serialization {} of {:?} rejected: {}", name, v, x, e)),
            },
            Err(e) => m.push(format!("FAIL C04 to_value failed for {} {:?}: {}", name, x, e)),
        }
        match serde_lexpr::to_string(x) {
            Ok(s) => {
                match serde_lexpr::from_str::<T>(&s) {
                    Ok(y) => if &y != x { m.push(format!("FAIL C04 text round trip of {} changed the data: {:?} -> {:?} -> {:?}", name, x, s, y)); },
                    Err(e) => m.push(format!("FAIL C04 text round trip of {}: own text {:?} rejected: {}", name, s, e)),
                }
                let a = serde_lexpr::from_slice::<T>(s.as_bytes()).ok();
                let b = serde_lexpr::from_reader::<T>(s.as_bytes()).ok();
                if a.as_ref() != serde_lexpr::from_str::<T>(&s).ok().as_ref() || a != b { m.push(format!("FAIL C04 text entry points disagree for {} on {:?}", name, s)); }
            }
            Err(e) => m.push(format!("FAIL C04 to_string failed for {} {:?}: {}", name, x, e)),
        }
        m
    }));
    match r { Ok(m) => msgs.extend(m), Err(_) => msgs.push(format!("FAIL C18 serde round trip of {} panicked", name)) }
}

/// a map written entry by entry with `serialize_key` then `serialize_value` (what streaming serializers and
/// transcoders do), read back in order
#[derive(Debug, PartialEq, Clone)]
pub struct StreamMap(pub Vec<(String, u32)>);
impl Serialize for StreamMap {
    fn serialize<S: serde::Serializer>(&self, s: S) -> Result<S::Ok, S::Error> {
        let mut m = s.serialize_map(Some(self.0.len()))?;
        for (k, v) in &self.0 { m.serialize_key(k)?; m.serialize_value(v)?; }
        m.end()
    }
}
impl<'de> Deserialize<'de> for StreamMap {
    fn deserialize<D: serde::Deserializer<'de>>(d: D) -> Result<Self, D::Error> {
        struct V;
        impl<'de> serde::de::Visitor<'de> for V {
            type Value = StreamMap;
            fn expecting(&self, f: &mut std::fmt::Formatter) -> std::fmt::Result { f.write_str("a map") }
            fn visit_map<A: serde::de::MapAccess<'de>>(self, mut a: A) -> Result<StreamMap, A::Error> {
                let mut out = Vec::new();
                while let Some(k) = a.next_key::<String>()? { let v = a.next_value::<u32>()?; out.push((k, v)); }
                Ok(StreamMap(out))
            }
        }
        d.deserialize_map(V)
    }
}

/// an identifier rustc accepts (XID_Start) whose first character is not `char::is_alphabetic`
#[derive(Serialize, Deserialize, Debug, PartialEq)]
pub struct Weierstrass { ℘: u8 }

#[derive(Serialize, Deserialize, Debug, PartialEq)]
pub struct Größe { größe: u8, λ: Option<i8> }

/// a self-describing target: whatever `deserialize_any` presents (what untagged enums, `serde_json::Value`-like
/// types and transcoders see)
#[derive(Debug, PartialEq, Clone)]
pub enum AnyVal { Unit, Bool(bool), I(i64), U(u64), F(u64), Char(char), Str(String), Bytes(Vec<u8>), Seq(Vec<AnyVal>) }
impl<'de> Deserialize<'de> for AnyVal {
    fn deserialize<D: serde::Deserializer<'de>>(d: D) -> Result<Self, D::Error> {
        struct V;
        impl<'de> serde::de::Visitor<'de> for V {
            type Value = AnyVal;
            fn expecting(&self, f: &mut std::fmt::Formatter) -> std::fmt::Result { f.write_str("anything") }
            fn visit_unit<E>(self) -> Result<AnyVal, E> { Ok(AnyVal::Unit) }
            fn visit_bool<E>(self, b: bool) -> Result<AnyVal, E> { Ok(AnyVal::Bool(b)) }
            fn visit_i64<E>(self, n: i64) -> Result<AnyVal, E> { Ok(AnyVal::I(n)) }
            fn visit_u64<E>(self, n: u64) -> Result<AnyVal, E> { Ok(AnyVal::U(n)) }
            fn visit_f64<E>(self, n: f64) -> Result<AnyVal, E> { Ok(AnyVal::F(n.to_bits())) }
            fn visit_char<E>(self, c: char) -> Result<AnyVal, E> { Ok(AnyVal::Char(c)) }
            fn visit_str<E>(self, s: &str) -> Result<AnyVal, E> { Ok(AnyVal::Str(s.to_string())) }
            fn visit_bytes<E>(self, b: &[u8]) -> Result<AnyVal, E> { Ok(AnyVal::Bytes(b.to_vec())) }
            fn visit_seq<A: serde::de::SeqAccess<'de>>(self, mut a: A) -> Result<AnyVal, A::Error> {
                let mut out = Vec::new();
                while let Some(x) = a.next_element::<AnyVal>()? { out.push(x); if out.len() > 100_000 { break; } }
                Ok(AnyVal::Seq(out))
            }
        }
        d.deserialize_any(V)
    }
}

/// hand-written fixed-arity readers: a visitor that takes exactly two items from `deserialize_seq` (K = 0),
/// `deserialize_tuple(2)` (K = 1) or `deserialize_tuple_struct(_, 2)` (K = 2) and never asks for a third one —
/// what is left of the list after the last item it took is the deserializer's business, not the visitor's
#[derive(Debug, PartialEq)]
pub struct Fixed2<const K: u8>(i64, i64);
impl<'de, const K: u8> Deserialize<'de> for Fixed2<K> {
    fn deserialize<D: serde::Deserializer<'de>>(d: D) -> Result<Self, D::Error> {
        struct V<const K: u8>;
        impl<'de, const K: u8> serde::de::Visitor<'de> for V<K> {
            type Value = Fixed2<K>;
            fn expecting(&self, f: &mut std::fmt::Formatter) -> std::fmt::Result { f.write_str("two integers") }
            fn visit_seq<A: serde::de::SeqAccess<'de>>(self, mut a: A) -> Result<Fixed2<K>, A::Error> {
                let x = a.next_element::<i64>()?.ok_or_else(|| serde::de::Error::invalid_length(0, &self))?;
                let y = a.next_element::<i64>()?.ok_or_else(|| serde::de::Error::invalid_length(1, &self))?;
                Ok(Fixed2(x, y))
            }
        }
        match K { 0 => d.deserialize_seq(V::<K>), 1 => d.deserialize_tuple(2, V::<K>), _ => d.deserialize_tuple_struct("Fixed2", 2, V::<K>) }
    }
}

/// variant names are data: the empty name (`#[serde(rename = "")]`) is a name like any other.  The documented shape of
/// each variant kind is compared with the shape of the same variant under an ordinary name.
#[derive(Serialize, Deserialize, Debug, PartialEq)]
enum Named { U, N(u8), T(u8, String), S { id: u8, tag: String } }
#[derive(Serialize, Deserialize, Debug, PartialEq)]
enum EmptyU { #[serde(rename = "")] U, Other }
#[derive(Serialize, Deserialize, Debug, PartialEq)]
enum EmptyN { #[serde(rename = "")] N(u8), Other }
#[derive(Serialize, Deserialize, Debug, PartialEq)]
enum EmptyT { #[serde(rename = "")] T(u8, String), Other }
#[derive(Serialize, Deserialize, Debug, PartialEq)]
enum EmptyS { #[serde(rename = "")] S { id: u8, tag: String }, Other }

fn renamed(v: &Value, from: &str, to: &str) -> Value {
    match v {
        Value::Symbol(s) if &**s == from => Value::symbol(to),
        Value::Cons(c) => match c.car() { Value::Symbol(s) if &**s == from => Value::cons(Value::symbol(to), c.cdr().clone()), _ => v.clone() },
        _ => v.clone(),
    }
}

fn empty_name_checks(r: &mut Rng, m: &mut Vec<String>) {
    fn one<A: Serialize + Debug, B: Serialize + DeserializeOwned + PartialEq + Debug>(kind: &str, named: &A, name: &str, empty: &B, m: &mut Vec<String>) {
        let (vn, ve) = match (serde_lexpr::to_value(named), serde_lexpr::to_value(empty)) { (Ok(a), Ok(b)) => (a, b), other => { m.push(format!("FAIL C14 to_value of a {} variant fails: {:?}", kind, other)); return; } };
        let want = renamed(&vn, name, "");
        if ve != want { m.push(format!("FAIL C14 a {} variant whose name is the empty string is written {} ; the same variant named {} is written {}", kind, ve, name, vn)); }
        match serde_lexpr::from_value::<B>(&ve) {
            Ok(back) if &back == empty => {}
            other => m.push(format!("FAIL C04 a {} variant whose name is the empty string does not survive the value round trip: {} read back as {:?}", kind, ve, other)),
        }
    }
    let (n, s) = (r.below(256) as u8, crate::gen::gen_string(r, 5));
    one("unit", &Named::U, "U", &EmptyU::U, m);
    one("newtype", &Named::N(n), "N", &EmptyN::N(n), m);
    one("tuple", &Named::T(n, s.clone()), "T", &EmptyT::T(n, s.clone()), m);
    one("struct", &Named::S { id: n, tag: s.clone() }, "S", &EmptyS::S { id: n, tag: s }, m);
}

fn fixed_arity_checks(r: &mut Rng, m: &mut Vec<String>) {
    fn one<const K: u8>(r: &mut Rng, m: &mut Vec<String>) {
        let how = ["deserialize_seq", "deserialize_tuple", "deserialize_tuple_struct"][K as usize];
        let (x, y) = (r.below(2000) as i64 - 1000, crate::gen::boundary_u64(r) as i64);
        let items = || vec![Value::from(x), Value::from(y)];
        match serde_lexpr::from_value::<Fixed2<K>>(&Value::list(items())) {
            Ok(f) if f == Fixed2::<K>(x, y) => {}
            other => m.push(format!("FAIL C14 a proper two-element list read through {} by a fixed-arity visitor gives {:?}", how, other)),
        }
        let tails = [Value::from(3), Value::string("x"), Value::symbol("t"), Value::keyword("k"), Value::from(true), Value::from('c'), Value::from(2.5)];
        let tail = r.pick(&tails).clone();
        let v = Value::append(items(), tail);
        let text = v.to_string();
        let results = [("from_value", serde_lexpr::from_value::<Fixed2<K>>(&v)), ("from_str", serde_lexpr::from_str::<Fixed2<K>>(&text))];
        for (entry, res) in results {
            match res {
                Ok(f) => m.push(format!("FAIL C14 improper list {} accepted where a sequence of two items is expected ({} / {}, a visitor that takes exactly two items): {:?}", text, entry, how, f)),
                Err(e) => if e.classify() != serde_lexpr::error::Category::Data { m.push(format!("FAIL C14 improper list {} rejected through {} / {} with a {:?} error instead of a data error", text, entry, how, e.classify())); },
            }
        }
    }
    one::<0>(r, m); one::<1>(r, m); one::<2>(r, m);
}

/// what `deserialize_any` must present for a value: atoms as themselves, a vector as the sequence of its elements,
/// a pair as the two-element sequence (car, cdr) (pinned by the crate's own test `test_deserialize_any_cons`),
/// the empty list as the empty sequence, #nil as unit; symbols and keywords are rejected with a data error
fn any_view(v: &Value) -> Option<AnyVal> {
    Some(match v {
        Value::Nil => AnyVal::Unit,
        Value::Null => AnyVal::Seq(vec![]),
        Value::Bool(b) => AnyVal::Bool(*b),
        Value::Number(n) => if let Some(u) = n.as_u64() { AnyVal::U(u) } else if let Some(i) = n.as_i64() { AnyVal::I(i) } else { AnyVal::F(n.as_f64().unwrap().to_bits()) },
        Value::Char(c) => AnyVal::Char(*c),
        Value::String(s) => AnyVal::Str(s.to_string()),
        Value::Bytes(b) => AnyVal::Bytes(b.to_vec()),
        Value::Symbol(_) | Value::Keyword(_) => return None,
        Value::Cons(c) => AnyVal::Seq(vec![any_view(c.car())?, any_view(c.cdr())?]),
        Value::Vector(xs) => AnyVal::Seq(xs.iter().map(any_view).collect::<Option<Vec<_>>>()?),
    })
}

fn any_checks(r: &mut Rng, m: &mut Vec<String>) {
    for _ in 0..6 {
        let v = crate::gen::gen_value(r, &crate::gen::VCFG_ANY, 3);
        if crate::oracle::nesting(&v) > 30 { continue; }
        let got = catch_unwind(AssertUnwindSafe(|| serde_lexpr::from_value::<AnyVal>(&v)));
        match (got, any_view(&v)) {
            (Err(_), _) => m.push(format!("FAIL C18 from_value into a self-describing target panicked on {}", v)),
            (Ok(Ok(a)), Some(w)) => if a != w { m.push(format!("FAIL C18 deserialize_any presents {} as {:?}, expected {:?}", v, a, w)); },
            (Ok(Ok(a)), None) => m.push(format!("FAIL C18 deserialize_any accepted a symbol or keyword inside {} as {:?}", v, a)),
            (Ok(Err(e)), Some(_)) => m.push(format!("FAIL C18 deserialize_any rejected {}: {}", v, e)),
            (Ok(Err(e)), None) => if format!("{:?}", e.classify()) != "Data" { m.push(format!("FAIL C18 error category {:?} for a symbol inside {}", e.classify(), v)); },
        }
    }
    // serde-lexpr's text API reports the parser's error: same category, same location, the I/O error kept as source
    for text in ["(1 2", "\"abc", "#", "(1 . )", ")", "1x", "#\\foo", "", "  ; only a comment", "(a . b c)", "1 2"] {
        let real = serde_lexpr::from_str::<Vec<u8>>(text);
        let want = lexpr::from_str(text);
        match (real, want) {
            (Err(e), Err(p)) => {
                let cat = format!("{:?}", e.classify());
                let pc = format!("{:?}", p.classify());
                let loc = (e.location().map(|l| (l.line(), l.column())), p.location().map(|l| (l.line(), l.column())));
                if cat != pc || loc.0 != loc.1 { m.push(format!("FAIL C19 serde_lexpr::from_str({:?}) reports {} at {:?}, the parser reports {} at {:?}", text, cat, loc.0, pc, loc.1)); }
                if std::error::Error::source(&e).is_none() { m.push(format!("FAIL C19 serde_lexpr error for {:?} has no source", text)); }
                let _ = format!("{} {:?}", e, e);
                let want_kind = if pc == "Eof" { std::io::ErrorKind::UnexpectedEof } else { std::io::ErrorKind::InvalidData };
                match catch_unwind(AssertUnwindSafe(move || std::io::Error::from(e))) {
                    Ok(ioe) => if ioe.kind() != want_kind { m.push(format!("FAIL C19 serde_lexpr error for {:?} ({}) converts to io::ErrorKind::{:?}", text, pc, ioe.kind())); },
                    Err(_) => m.push(format!("FAIL C19 converting the serde_lexpr error for {:?} into io::Error panicked", text)),
                }
            }
            (Ok(_), Err(p)) => m.push(format!("FAIL C19 serde_lexpr::from_str({:?}) succeeded although the parser fails with {}", text, p)),
            _ => {}
        }
    }
    // every truncation of a text with multi-byte characters, through the serde-lexpr reader entry points: the category and
    // location are the parser's (a cut inside a character is "more data needed", not an I/O or syntax error)
    let text = "(\"grüße\" \"naïve\" λ #\\é)".as_bytes();
    for k in 0..text.len() {
        let a = serde_lexpr::from_reader::<Vec<String>>(&text[..k]);
        let b = serde_lexpr::from_slice::<Vec<String>>(&text[..k]);
        let p = lexpr::from_reader(&text[..k]);
        if let (Err(ea), Err(eb), Err(pe)) = (&a, &b, &p) {
            let (ca, cb, pc) = (format!("{:?}", ea.classify()), format!("{:?}", eb.classify()), format!("{:?}", pe.classify()));
            let la = ea.location().map(|l| (l.line(), l.column()));
            if ca != pc || cb != pc || la != pe.location().map(|l| (l.line(), l.column())) {
                m.push(format!("FAIL C19 serde_lexpr::from_reader / from_slice on the first {} bytes report {} / {} at {:?}, the parser reports {}", k, ca, cb, la, pc));
            }
        }
    }
    // targets that BORROW from the value (only reachable through from_value): &str, &[u8], in every position
    {
        let v = Value::string("héllo");
        if serde_lexpr::from_value::<&str>(&v).ok() != Some("héllo") { m.push("FAIL C04 from_value::<&str> does not return the borrowed string".into()); }
        let pair = Value::vector(vec![Value::string("a"), Value::string("b")]);
        if serde_lexpr::from_value::<(&str, &str)>(&pair).ok() != Some(("a", "b")) { m.push("FAIL C04 from_value::<(&str, &str)> fails on #(\"a\" \"b\")".into()); }
        let lst = Value::list(vec![Value::string("x"), Value::string("y")]);
        if serde_lexpr::from_value::<Vec<&str>>(&lst).ok() != Some(vec!["x", "y"]) { m.push("FAIL C04 from_value::<Vec<&str>> fails".into()); }
        let opt = Value::list(vec![Value::string("x")]);
        if serde_lexpr::from_value::<Option<&str>>(&opt).ok() != Some(Some("x")) { m.push("FAIL C04 from_value::<Option<&str>> fails".into()); }
        let al = Value::list(vec![Value::cons(Value::string("k"), 1)]);
        if serde_lexpr::from_value::<BTreeMap<&str, u8>>(&al).ok().map(|m| m.get("k").copied()) != Some(Some(1)) { m.push("FAIL C04 from_value::<BTreeMap<&str, u8>> fails".into()); }
        #[derive(Deserialize, Debug, PartialEq)]
        struct Borrowing<'a> { name: &'a str, #[serde(borrow)] tags: Vec<&'a str> }
        let bv = Value::list(vec![Value::cons(Value::symbol("name"), Value::string("n")), Value::cons(Value::symbol("tags"), Value::list(vec![Value::string("t1")]))]);
        if serde_lexpr::from_value::<Borrowing>(&bv).ok() != Some(Borrowing { name: "n", tags: vec!["t1"] }) { m.push("FAIL C04 from_value into a struct with borrowed fields fails".into()); }
        let by = Value::bytes(vec![1u8, 2, 3]);
        if serde_lexpr::from_value::<&serde_bytes::Bytes>(&by).ok().map(|b| b.to_vec()) != Some(vec![1u8, 2, 3]) { m.push("FAIL C04 from_value::<&Bytes> fails".into()); }
    }
    // content that cannot be serialized makes the whole conversion fail — it never turns into another shape
    {
        struct Failing;
        impl Serialize for Failing { fn serialize<S: serde::Serializer>(&self, _: S) -> Result<S::Ok, S::Error> { Err(serde::ser::Error::custom("no")) } }
        #[derive(Serialize)] struct Holder { payload: Option<Failing>, n: u8 }
        let bad = [serde_lexpr::to_value(&Some(Failing)).is_ok(), serde_lexpr::to_value(&Some(u128::MAX)).map(|v| !(v.as_cons().is_some())).unwrap_or(false),
                   serde_lexpr::to_value(&vec![Some(Failing)]).is_ok(), serde_lexpr::to_value(&Holder { payload: Some(Failing), n: 1 }).is_ok(),
                   serde_lexpr::to_value(&(1u8, Failing)).is_ok(), serde_lexpr::to_value(&Some(Some(Failing))).is_ok(), serde_lexpr::to_string(&Some(Failing)).is_ok()];
        if bad.iter().any(|b| *b) { m.push(format!("FAIL C14 a value whose content fails to serialize was serialized anyway (Some / Vec / struct / tuple / nested / text): {:?}", bad)); }
    }
    // 128-bit integers: refused, or the integer of the same mathematical value (never a wrapped one)
    for x in [1i128 << 63, (1i128 << 64) - 1, (1i128 << 63) + 12345, -(1i128 << 63), i64::MAX as i128, -1, 0, 1i128 << 64, -(1i128 << 63) - 1] {
        if let Ok(v) = serde_lexpr::to_value(&x) {
            let got = v.as_u64().map(|u| u as i128).or(v.as_i64().map(|i| i as i128));
            if got != Some(x) { m.push(format!("FAIL C14 the i128 {} is serialized as {}", x, v)); }
        }
        if x >= 0 {
            if let Ok(v) = serde_lexpr::to_value(&(x as u128)) {
                if v.as_u64().map(|u| u as i128) != Some(x) { m.push(format!("FAIL C14 the u128 {} is serialized as {}", x, v)); }
            }
        }
    }
    // a failing reader: I/O category, the error kept as source; a failing writer: an error, not success
    let rd = crate::ops::make_reader("x2", b"(1 2 3)");
    match serde_lexpr::from_reader::<Vec<u8>>(rd) {
        Err(e) => {
            if format!("{:?}", e.classify()) != "Io" || e.location().is_some() { m.push(format!("FAIL C06 serde_lexpr::from_reader on a failing reader reports {:?} {}", e.classify(), e)); }
            if std::error::Error::source(&e).is_none() { m.push("FAIL C06 serde_lexpr I/O error has no source".into()); }
            // ... and converting it into io::Error hands back the reader's own error
            match catch_unwind(AssertUnwindSafe(move || std::io::Error::from(e))) {
                Ok(ioe) => if ioe.to_string() != "injected-read-fault" { m.push(format!("FAIL C19 serde_lexpr read error converts to a different io::Error: {}", ioe)); m.push(format!("FAIL C06 serde_lexpr read error converts to a different io::Error: {}", ioe)); },
                Err(_) => { m.push("FAIL C19 converting a serde_lexpr read error into io::Error panicked".into()); m.push("FAIL C06 converting a serde_lexpr read error into io::Error panicked".into()); }
            }
        }
        Ok(x) => m.push(format!("FAIL C06 serde_lexpr::from_reader on a failing reader returned {:?}", x)),
    }
    let rd = crate::ops::make_reader("x9", b"(1 2 3)");
    let a = serde_lexpr::from_reader_custom::<Vec<u8>>(rd, lexpr::parse::Options::default()).ok();
    if a != Some(vec![1, 2, 3]) || serde_lexpr::from_slice_custom::<Vec<u8>>(b"(1 2 3)", lexpr::parse::Options::elisp()).ok() != a { m.push("FAIL C04 serde_lexpr::from_reader_custom / from_slice_custom disagree with from_str".into()); }
    struct Full;
    impl std::io::Write for Full { fn write(&mut self, _: &[u8]) -> std::io::Result<usize> { Err(std::io::Error::new(std::io::ErrorKind::Other, "full")) } fn flush(&mut self) -> std::io::Result<()> { Ok(()) } }
    match serde_lexpr::to_writer_custom(Full, &vec![1u8, 2], lexpr::print::Options::elisp()) {
        Err(e) => if format!("{:?}", e.classify()) != "Io" { m.push(format!("FAIL C07 serde_lexpr::to_writer_custom on a failing sink reports category {:?}", e.classify())); },
        Ok(()) => m.push("FAIL C07 serde_lexpr::to_writer_custom on a failing sink reported success".into()),
    }
    let mut out = Vec::new();
    if serde_lexpr::to_writer_custom(&mut out, &vec![1u8, 2], lexpr::print::Options::elisp()).is_err() || out != serde_lexpr::to_vec_custom(&vec![1u8, 2], lexpr::print::Options::elisp()).unwrap() {
        m.push("FAIL C07 serde_lexpr::to_writer_custom differs from to_vec_custom".into());
    }
}

pub fn run(seed: u64) -> Vec<String> {
    let mut r = Rng::new(seed);
    let mut m = Vec::new();
    any_checks(&mut r, &mut m);
    fixed_arity_checks(&mut r, &mut m);
    empty_name_checks(&mut r, &mut m);
    let b = |r: &mut Rng| -> u8 { *r.pick(&[0u8, 1, 9, 10, 127, 128, 255, 42]) };
    let v4 = Ipv4Addr::new(b(&mut r), b(&mut r), b(&mut r), b(&mut r));
    let mut seg = [0u16; 8]; for s in seg.iter_mut() { *s = *r.pick(&[0u16, 1, 0xffff, 0x2001, 0xdb8, 10]); }
    let v6 = Ipv6Addr::new(seg[0], seg[1], seg[2], seg[3], seg[4], seg[5], seg[6], seg[7]);
    let port = *r.pick(&[0u16, 1, 80, 65535]);
    rt("Ipv4Addr", &v4, &mut m);
    rt("Ipv6Addr", &v6, &mut m);
    rt("IpAddr", &IpAddr::V4(v4), &mut m);
    rt("IpAddr", &IpAddr::V6(v6), &mut m);
    rt("SocketAddr", &SocketAddr::V4(SocketAddrV4::new(v4, port)), &mut m);
    rt("SocketAddr", &SocketAddr::V6(SocketAddrV6::new(v6, port, 0, 0)), &mut m);
    rt("Vec<IpAddr>", &vec![IpAddr::V4(v4), IpAddr::V6(v6)], &mut m);
    rt("(IpAddr, u8)", &(IpAddr::V4(v4), b(&mut r)), &mut m);
    rt("Duration", &std::time::Duration::new(crate::gen::boundary_u64(&mut r), (r.below(1_000_000_000)) as u32), &mut m);
    rt("Range<u8>", &(b(&mut r)..b(&mut r)), &mut m);
    rt("RangeInclusive<i16>", &((b(&mut r) as i16 - 128)..=(b(&mut r) as i16)), &mut m);
    rt("Bound<u8>", &std::ops::Bound::Included(b(&mut r)), &mut m);
    rt("Bound<u8>", &std::ops::Bound::<u8>::Unbounded, &mut m);
    rt("Wrapping<i16>", &std::num::Wrapping(b(&mut r) as i16 - 200), &mut m);
    rt("Reverse<u8>", &std::cmp::Reverse(b(&mut r)), &mut m);
    if let Some(nz) = std::num::NonZeroU8::new(b(&mut r)) { rt("NonZeroU8", &nz, &mut m); }
    rt("Result<u8, String>", &(if r.chance(1, 2) { Ok(b(&mut r)) } else { Err::<u8, String>(crate::gen::gen_string(&mut r, 6)) }), &mut m);
    rt("Box<(u8, Option<u8>)>", &Box::new((b(&mut r), if r.chance(1, 2) { Some(b(&mut r)) } else { None })), &mut m);
    rt("[u8; 3]", &[b(&mut r), b(&mut r), b(&mut r)], &mut m);
    rt("[(u8, bool); 2]", &[(b(&mut r), true), (b(&mut r), false)], &mut m);
    rt("[u8; 0]", &([] as [u8; 0]), &mut m);
    rt("VecDeque<i8>", &(0..r.below(4)).map(|_| b(&mut r) as i8).collect::<VecDeque<i8>>(), &mut m);
    rt("LinkedList<String>", &(0..r.below(3)).map(|_| crate::gen::gen_string(&mut r, 4)).collect::<LinkedList<String>>(), &mut m);
    rt("HashMap<u8, u8>", &(0..r.below(5)).map(|_| (b(&mut r), b(&mut r))).collect::<HashMap<u8, u8>>(), &mut m);
    rt("HashSet<char>", &(0..r.below(5)).map(|_| crate::gen::gen_char(&mut r)).collect::<HashSet<char>>(), &mut m);
    rt("BTreeMap<(u8, u8), Vec<u8>>", &(0..r.below(4)).map(|_| ((b(&mut r), b(&mut r)), vec![b(&mut r)])).collect::<BTreeMap<(u8, u8), Vec<u8>>>(), &mut m);
    rt("PhantomData<u8>", &std::marker::PhantomData::<u8>, &mut m);
    rt("Cow<str>", &std::borrow::Cow::<str>::Owned(crate::gen::gen_string(&mut r, 6)), &mut m);
    rt("Option<Result<(), ()>>", &Some(Ok::<(), ()>(())), &mut m);
    rt("Größe", &Größe { größe: b(&mut r), λ: Some(-1) }, &mut m);
    rt("Weierstrass", &Weierstrass { ℘: b(&mut r) }, &mut m);
    // a hand-written streaming map: round trip keeps the entries in order, and the shape is the documented
    // association list of (key . value) cells
    let n = r.below(5);
    let sm = StreamMap((0..n).map(|i| (format!("k{}{}", i, crate::gen::gen_ident(&mut r)), r.below(1000) as u32)).collect());
    rt("StreamMap", &sm, &mut m);
    if let Ok(v) = serde_lexpr::to_value(&sm) {
        let want = Value::list(sm.0.iter().map(|(k, x)| Value::cons(Value::string(k.as_str()), Value::from(*x))).collect::<Vec<_>>());
        if v != want { m.push(format!("FAIL C14 a map written with serialize_key / serialize_value is {} instead of the association list {}", v, want)); }
    }
    m
}
