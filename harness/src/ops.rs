//! Execution of one operation line on the real code.
use crate::codec::*;
use lexpr::{parse::Parser, Value};
use std::io::{self, Read, Write};
use std::panic::{catch_unwind, AssertUnwindSafe};

/// A sink that records, per byte, whether it arrived through `write` or `write_all`.
pub struct Trace {
    pub bytes: Vec<u8>,
    pub labels: Vec<u8>,
}
impl Write for Trace {
    fn write(&mut self, buf: &[u8]) -> io::Result<usize> {
        self.bytes.extend_from_slice(buf);
        self.labels.extend(std::iter::repeat(b'W').take(buf.len()));
        Ok(buf.len())
    }
    fn write_all(&mut self, buf: &[u8]) -> io::Result<()> {
        self.bytes.extend_from_slice(buf);
        self.labels.extend(std::iter::repeat(b'A').take(buf.len()));
        Ok(())
    }
    fn flush(&mut self) -> io::Result<()> {
        Ok(())
    }
}

pub static FAULT_HIT: std::sync::atomic::AtomicBool = std::sync::atomic::AtomicBool::new(false);

pub fn rle(labels: &[u8]) -> String {
    let mut s = String::new();
    let mut i = 0;
    while i < labels.len() {
        let mut j = i;
        while j < labels.len() && labels[j] == labels[i] {
            j += 1;
        }
        s.push(labels[i] as char);
        s.push_str(&(j - i).to_string());
        i = j;
    }
    if s.is_empty() {
        s.push('-');
    }
    s
}

/// Sink whose answers depend only on how many bytes it has accepted so far, so that the
/// delivered bytes do not depend on how the printer splits its output into calls:
/// `k<n>` accepts at most n bytes per call, `r<seed>` a pseudo-random 1..5 per offset;
/// `,f<n>` fails (for good) at offset n, `,z<n>` accepts nothing at offset n,
/// `,i<seed>` answers Interrupted once at pseudo-randomly chosen offsets.
/// Only `write` is implemented, so `write_all` is the standard library's.
#[derive(Clone, Debug)]
pub struct Sched {
    pub uniform: Option<usize>,
    pub seed: u64,
    pub fail_at: Option<usize>,
    pub zero_at: Option<usize>,
    pub intr: Option<u64>,
    pub fail_once: Option<usize>,
    pub zero_once: Option<usize>,
}

pub fn sched_hash(seed: u64, off: usize) -> u64 {
    seed.wrapping_mul(6364136223846793005).wrapping_add((off as u64 + 1).wrapping_mul(1442695040888963407)) >> 33
}

pub fn parse_sched(s: &str) -> Sched {
    let mut sc = Sched { uniform: None, seed: 0, fail_at: None, zero_at: None, intr: None, fail_once: None, zero_once: None };
    for t in s.split(',') {
        let n: u64 = t[1..].parse().unwrap_or(0);
        match &t[..1] {
            "k" => sc.uniform = Some(n as usize),
            "r" => sc.seed = n,
            "f" => sc.fail_at = Some(n as usize),
            "z" => sc.zero_at = Some(n as usize),
            "i" => sc.intr = Some(n),
            "F" => sc.fail_once = Some(n as usize),
            "Z" => sc.zero_once = Some(n as usize),
            _ => {}
        }
    }
    sc
}

pub struct SchedSink {
    pub sched: Sched,
    pub got: Vec<u8>,
    pub last_intr: Option<usize>,
    pub calls: usize,
    /// the transient fault (`F<n>` / `Z<n>`) has happened
    pub tripped: bool,
}
impl Write for SchedSink {
    fn write(&mut self, buf: &[u8]) -> io::Result<usize> {
        self.calls += 1;
        let off = self.got.len();
        if let Some(s) = self.sched.intr {
            if sched_hash(s, off) % 3 == 0 && self.last_intr != Some(off) {
                self.last_intr = Some(off);
                return Err(io::Error::new(io::ErrorKind::Interrupted, "intr"));
            }
        }
        if !self.tripped {
            if let Some(n) = self.sched.fail_once {
                if off >= n {
                    self.tripped = true;
                    return Err(io::Error::new(io::ErrorKind::Other, "injected-transient-write-fault"));
                }
            }
            if self.sched.zero_once == Some(off) {
                self.tripped = true;
                return Ok(0);
            }
        }
        if let Some(n) = self.sched.fail_at {
            if off >= n {
                return Err(io::Error::new(io::ErrorKind::Other, "injected-write-fault"));
            }
        }
        if self.sched.zero_at == Some(off) {
            return Ok(0);
        }
        let mut k = match self.sched.uniform {
            Some(k) => k.max(1),
            None => 1 + (sched_hash(self.sched.seed, off) % 5) as usize,
        };
        k = k.min(buf.len());
        let (fo, zo) = if self.tripped { (None, None) } else { (self.sched.fail_once, self.sched.zero_once) };
        for lim in [self.sched.fail_at, self.sched.zero_at, fo, zo].iter().flatten() {
            if *lim > off {
                k = k.min(*lim - off);
            }
        }
        self.got.extend_from_slice(&buf[..k]);
        Ok(k)
    }
    fn flush(&mut self) -> io::Result<()> {
        Ok(())
    }
}

/// Reader delivering `data` in chunks, optionally `Interrupted` before every read, optionally
/// failing (for good) once `fault_at` bytes have been delivered.
pub struct ChunkReader {
    pub data: Vec<u8>,
    pub pos: usize,
    pub chunk: usize,
    pub interrupt: bool,
    pub toggle: bool,
    pub fault_at: Option<usize>,
    pub reads: usize,
    /// kind of the injected fault (x/X: Other; w: WouldBlock, which a reader may be tempted to retry)
    pub fault_kind: io::ErrorKind,
    /// y<k>: one WouldBlock error after k bytes, then the stream continues
    pub transient_at: Option<usize>,
    pub tripped: bool,
    pub polls_after_fault: usize,
}
impl Read for ChunkReader {
    fn read(&mut self, buf: &mut [u8]) -> io::Result<usize> {
        self.reads += 1;
        if self.interrupt {
            self.toggle = !self.toggle;
            if self.toggle {
                return Err(io::Error::new(io::ErrorKind::Interrupted, "intr"));
            }
        }
        let mut limit = self.fault_at.unwrap_or(self.data.len()).min(self.data.len());
        if let Some(k) = self.fault_at {
            if self.pos >= k {
                FAULT_HIT.store(true, std::sync::atomic::Ordering::SeqCst);
                self.polls_after_fault += 1;
                // a parser that keeps retrying a failing read never returns: make that observable
                if self.polls_after_fault > 2000 { panic!("reader polled 2000 times after a persistent read error"); }
                return Err(io::Error::new(self.fault_kind, "injected-read-fault"));
            }
        }
        if let Some(k) = self.transient_at {
            if !self.tripped {
                if self.pos >= k {
                    self.tripped = true;
                    FAULT_HIT.store(true, std::sync::atomic::Ordering::SeqCst);
                    return Err(io::Error::new(io::ErrorKind::WouldBlock, "injected-transient-read-fault"));
                }
                limit = limit.min(k);
            }
        }
        let n = buf.len().min(self.chunk).min(limit - self.pos);
        buf[..n].copy_from_slice(&self.data[self.pos..self.pos + n]);
        self.pos += n;
        Ok(n)
    }
}

/// src codes: s = &str, b = slice, i<k> = stream with k-byte chunks (0 = whole), j<k> = the same
/// with Interrupted before every read, I<k>/J<k> = the same behind a BufReader,
/// x<k> = stream failing after k bytes (1-byte chunks), X<k> = the same behind a BufReader,
/// w<k> = stream failing for good with WouldBlock / TimedOut after k bytes,
/// y<k> = stream reporting WouldBlock once after k bytes and delivering the rest afterwards.
pub fn make_reader(src: &str, data: &[u8]) -> Box<dyn Read> {
    let k: usize = src[1..].parse().unwrap_or(0);
    let mut r = ChunkReader {
        data: data.to_vec(),
        pos: 0,
        chunk: usize::MAX,
        interrupt: false,
        toggle: false,
        fault_at: None,
        reads: 0,
        fault_kind: io::ErrorKind::Other,
        transient_at: None,
        tripped: false,
        polls_after_fault: 0,
    };
    let c = src.as_bytes()[0];
    match c {
        b'i' | b'I' | b'j' | b'J' => {
            if k > 0 {
                r.chunk = k;
            }
            r.interrupt = c == b'j' || c == b'J';
        }
        b'x' | b'X' => {
            r.chunk = if c == b'x' { 1 } else { 7 };
            r.fault_at = Some(k);
            // whatever kind the stream's error has, it is an I/O error of the stream — `UnexpectedEof` included,
            // which is not "end of input"
            r.fault_kind = [io::ErrorKind::Other, io::ErrorKind::UnexpectedEof, io::ErrorKind::InvalidData, io::ErrorKind::PermissionDenied,
                            io::ErrorKind::UnexpectedEof, io::ErrorKind::BrokenPipe, io::ErrorKind::InvalidInput][k % 7];
        }
        b'w' => {
            r.chunk = 3;
            r.fault_at = Some(k);
            r.fault_kind = if k % 2 == 0 { io::ErrorKind::WouldBlock } else { io::ErrorKind::TimedOut };
        }
        b'y' => {
            r.chunk = 5;
            r.transient_at = Some(k);
        }
        _ => panic!("bad src"),
    }
    if c.is_ascii_uppercase() {
        Box::new(io::BufReader::with_capacity(16, r))
    } else {
        Box::new(r)
    }
}

fn span_str(s: lexpr::datum::Span) -> String {
    format!(
        "{}:{}-{}:{}",
        s.start().line(),
        s.start().column(),
        s.end().line(),
        s.end().column()
    )
}

/// Span tree of a datum, reconstructed through the public accessors.
pub fn enc_info(r: lexpr::datum::Ref<'_>, out: &mut Vec<String>) {
    let v: &Value = r.value();
    match v {
        Value::Cons(_) => {
            out.push(format!("q{}", span_str(r.span())));
            match catch_unwind(AssertUnwindSafe(|| r.as_pair())) {
                Ok(Some((a, d))) => {
                    enc_info(a, out);
                    enc_info(d, out);
                }
                _ => out.push("BAD".into()),
            }
        }
        Value::Vector(xs) => match r.vector_iter() {
            Some(it) => {
                let items: Vec<_> = it.collect();
                out.push(format!("w{}", span_str(r.span())));
                out.push(format!("{}", items.len()));
                if items.len() != xs.len() {
                    out.push("BAD".into());
                }
                for i in items {
                    enc_info(i, out);
                }
            }
            None => out.push("BAD".into()),
        },
        _ => out.push(format!("p{}", span_str(r.span()))),
    }
}

/// Last number a parser returned whose accessors disagree with each other (C20), drained by the oracle.
pub static COHERENCE_FAIL: std::sync::Mutex<Option<String>> = std::sync::Mutex::new(None);

pub fn item_value(r: Result<Option<Value>, lexpr::parse::Error>) -> String {
    match r {
        Ok(Some(v)) => {
            if let Some(bad) = crate::oracle::incoherent_number(&v) { *COHERENCE_FAIL.lock().unwrap() = Some(bad); }
            format!("val {}", enc_value(&v))
        }
        Ok(None) => "none".into(),
        Err(e) => err_item(e),
    }
}

pub fn item_datum(r: Result<Option<lexpr::Datum>, lexpr::parse::Error>) -> String {
    match r {
        Ok(Some(d)) => {
            let mut info = Vec::new();
            enc_info(d.as_ref(), &mut info);
            format!("dat {} @ {}", enc_value(d.value()), info.join(" "))
        }
        Ok(None) => "none".into(),
        Err(e) => err_item(e),
    }
}

fn run_history<'de, R: lexpr::parse::Read<'de>>(mut p: Parser<R>, api: &str) -> Vec<String> {
    let mut out = Vec::new();
    let mut step = |p: &mut Parser<R>, op: u8| -> String {
        match op {
            b'v' => item_value(p.next_value()),
            b'd' => item_datum(p.next_datum()),
            b'V' => item_value(p.expect_value().map(Some)),
            b'D' => item_datum(p.expect_datum().map(Some)),
            b'e' => match p.expect_end() {
                Ok(()) => "unit".into(),
                Err(e) => err_item(e),
            },
            b'i' => item_value(p.value_iter().next().transpose()),
            b'j' => item_datum(p.datum_iter().next().transpose()),
            b'p' => item_value(Iterator::next(p).transpose()),
            _ => panic!("bad op"),
        }
    };
    if let Some(rest) = api.strip_prefix("h:") {
        for op in rest.bytes() {
            let r = catch_unwind(AssertUnwindSafe(|| step(&mut p, op)));
            match r {
                Ok(s) => out.push(s),
                Err(_) => {
                    out.push("panic".into());
                    break;
                }
            }
        }
    } else if let Some(rest) = api.strip_prefix("r:") {
        let mut it = rest.split(':');
        let op = it.next().unwrap().as_bytes()[0];
        let cap: usize = it.next().unwrap().parse().unwrap();
        if op == b'i' || op == b'j' {
            // ONE iterator object kept for the whole iteration (what `for x in parser.value_iter()` does)
            let r = catch_unwind(AssertUnwindSafe(|| {
                let mut items = Vec::new();
                if op == b'i' {
                    let mut vi = p.value_iter();
                    for _ in 0..cap { let s = item_value(vi.next().transpose()); let done = s == "none"; items.push(s); if done { break; } }
                } else {
                    let mut di = p.datum_iter();
                    for _ in 0..cap { let s = item_datum(di.next().transpose()); let done = s == "none"; items.push(s); if done { break; } }
                }
                items
            }));
            match r { Ok(items) => out.extend(items), Err(_) => out.push("panic".into()) }
            return out;
        }
        for _ in 0..cap {
            let r = catch_unwind(AssertUnwindSafe(|| step(&mut p, op)));
            match r {
                Ok(s) => {
                    let done = s == "none";
                    out.push(s);
                    if done {
                        break;
                    }
                }
                Err(_) => {
                    out.push("panic".into());
                    break;
                }
            }
        }
    } else {
        panic!("bad api {}", api);
    }
    out
}

/// `parse <fast> <src> <R10> <api> <hex>`
/// the items of a history on a transiently failing stream (`y<k>`), for the direct oracle
pub fn exec_parse_transient(t: &[&str]) -> String {
    let opts = parse_opts(t[3]);
    let data = if t.len() > 5 { unhex(t[5]) } else { vec![] };
    run_history(Parser::from_reader_custom(make_reader(t[2], &data), opts), t[4]).join(" | ")
}

pub fn exec_parse(t: &[&str]) -> String {
    let src = t[2];
    // a stream that fails once and then recovers is outside the model: oracle only (see oracle.rs)
    if src.starts_with('y') { return "oracle-only".into(); }
    let opts = parse_opts(t[3]);
    let api = t[4];
    let data = if t.len() > 5 { unhex(t[5]) } else { vec![] };
    let items: Vec<String> = match api {
        "v1" => {
            let r = catch_unwind(AssertUnwindSafe(|| match src.as_bytes()[0] {
                b's' => lexpr::from_str_custom(std::str::from_utf8(&data).unwrap(), opts),
                b'b' => lexpr::from_slice_custom(&data, opts),
                _ => lexpr::from_reader_custom(make_reader(src, &data), opts),
            }));
            vec![match r {
                Ok(r) => item_value(r.map(Some)),
                Err(_) => "panic".into(),
            }]
        }
        "d1" => {
            let r = catch_unwind(AssertUnwindSafe(|| match src.as_bytes()[0] {
                b's' => lexpr::datum::from_str_custom(std::str::from_utf8(&data).unwrap(), opts),
                b'b' => lexpr::datum::from_slice_custom(&data, opts),
                _ => lexpr::datum::from_reader_custom(make_reader(src, &data), opts),
            }));
            vec![match r {
                Ok(r) => item_datum(r.map(Some)),
                Err(_) => "panic".into(),
            }]
        }
        _ => match src.as_bytes()[0] {
            b's' => run_history(
                Parser::from_str_custom(std::str::from_utf8(&data).unwrap(), opts),
                api,
            ),
            b'b' => run_history(Parser::from_slice_custom(&data, opts), api),
            _ => run_history(Parser::from_reader_custom(make_reader(src, &data), opts), api),
        },
    };
    items.join(" | ")
}

pub fn opt_val(v: Option<&Value>) -> String {
    match v {
        Some(v) => enc_value(v),
        None => "none".into(),
    }
}

/// `list <idx> <namehex|-> <value> ;; <key value>`
pub fn exec_list(t: &[&str]) -> String {
    let idx: usize = t[1].parse().unwrap();
    let name: Option<String> = if t[2] == "-" { None } else { Some(String::from_utf8(unhex(t[2])).unwrap()) };
    let mut it = t[3..].iter().copied();
    let v = dec_value(&mut it);
    let sep = it.next();
    assert_eq!(sep, Some(";;"));
    let key = dec_value(&mut it);
    let mut out: Vec<String> = Vec::new();
    out.push(format!("L{}", v.is_list() as u8));
    out.push(format!("D{}", v.is_dotted_list() as u8));
    match v.to_vec() {
        Some(xs) => {
            out.push("tv:[".into());
            for x in &xs {
                out.push(enc_value(x));
            }
            out.push("]".into());
        }
        None => out.push("tv:none".into()),
    }
    if let Value::Cons(c) = &v {
        let (xs, tail) = c.to_vec();
        out.push("cv:[".into());
        for x in &xs {
            out.push(enc_value(x));
        }
        out.push("]".into());
        out.push(enc_value(&tail));
        out.push(format!("it:{}", c.iter().count()));
        out.push("ii:".into());
        for (x, rest) in c.clone().into_iter() {
            out.push("(".into());
            out.push(enc_value(&x));
            out.push(match rest {
                Some(r) => enc_value(&r),
                None => "_".into(),
            });
            out.push(")".into());
        }
    }
    match v.list_iter() {
        Some(mut li) => {
            out.push("li:".into());
            let n = match &v {
                Value::Cons(c) => c.iter().count(),
                _ => 0,
            } + 4;
            for _ in 0..n {
                out.push(match li.next() {
                    Some(x) => enc_value(x),
                    None => "_".into(),
                });
            }
        }
        None => out.push("li:none".into()),
    }
    out.push(format!("g:{}", opt_val(v.get(idx))));
    out.push(format!("x:{}", enc_value(&v[idx])));
    if let Some(n) = &name {
        out.push(format!("n:{}", opt_val(v.get(n.as_str()))));
        out.push(format!("nx:{}", enc_value(&v[n.as_str()])));
    }
    out.push(format!("k:{}", opt_val(v.get(&key))));
    out.push(format!("kx:{}", enc_value(&v[&key])));
    out.join(" ")
}

fn ob<T: ToString>(o: Option<T>) -> String {
    match o {
        Some(x) => x.to_string(),
        None => "-".into(),
    }
}

/// `acc <value>`
pub fn exec_acc(t: &[&str]) -> String {
    let mut it = t[1..].iter().copied();
    let v = dec_value(&mut it);
    let flags = [
        v.is_nil(), v.is_null(), v.is_boolean(), v.is_number(), v.is_char(), v.is_string(),
        v.is_symbol(), v.is_keyword(), v.is_bytes(), v.is_cons(), v.is_vector(),
    ];
    let f: String = flags.iter().map(|b| if *b { '1' } else { '0' }).collect();
    let somes = [
        v.as_nil().is_some(), v.as_null().is_some(), v.as_bool().is_some(), v.as_number().is_some(),
        v.as_char().is_some(), v.as_str().is_some(), v.as_symbol().is_some(), v.as_keyword().is_some(),
        v.as_bytes().is_some(), v.as_cons().is_some(), v.as_slice().is_some(),
    ];
    let s: String = somes.iter().map(|b| if *b { '1' } else { '0' }).collect();
    let f64s = match v.as_f64() {
        Some(x) if x.is_nan() => "nan".to_string(),
        Some(x) => format!("{:016x}", x.to_bits()),
        None => "-".into(),
    };
    format!(
        "{} {} name={} str={} sym={} kw={} bytes={} bool={} char={} i64={} u64={} f64={} isi={} isu={} isf={} pair={}",
        f, s,
        ob(v.as_name().map(|s| format!("h{}", hex(s.as_bytes())))),
        ob(v.as_str().map(|s| format!("h{}", hex(s.as_bytes())))),
        ob(v.as_symbol().map(|s| format!("h{}", hex(s.as_bytes())))),
        ob(v.as_keyword().map(|s| format!("h{}", hex(s.as_bytes())))),
        ob(v.as_bytes().map(|s| format!("h{}", hex(s)))),
        ob(v.as_bool().map(|b| b as u8)),
        ob(v.as_char().map(|c| format!("{:x}", c as u32))),
        ob(v.as_i64()), ob(v.as_u64()), f64s,
        v.is_i64() as u8, v.is_u64() as u8, v.is_f64() as u8,
        match v.as_pair() { Some((a, d)) => format!("({} . {})", enc_value(a), enc_value(d)), None => "-".into() },
    )
}

/// A Rust primitive: `i8:-5`, `u64:7`, `f32:<8 hex>`, `f64:<16 hex>`, `b:1`, `s:<hex>`, `c:<hex>`, `y:<hex>` (bytes)
pub enum Prim {
    I(u8, i64),
    U(u8, u64),
    F32(f32),
    F64(f64),
    B(bool),
    S(String),
    C(char),
    Y(Vec<u8>),
}

pub fn parse_prim(s: &str) -> Prim {
    let (k, v) = s.split_once(':').unwrap();
    match k {
        "i8" => Prim::I(8, v.parse().unwrap()),
        "i16" => Prim::I(16, v.parse().unwrap()),
        "i32" => Prim::I(32, v.parse().unwrap()),
        "i64" => Prim::I(64, v.parse().unwrap()),
        "u8" => Prim::U(8, v.parse().unwrap()),
        "u16" => Prim::U(16, v.parse().unwrap()),
        "u32" => Prim::U(32, v.parse().unwrap()),
        "u64" => Prim::U(64, v.parse().unwrap()),
        "f32" => Prim::F32(f32::from_bits(u32::from_str_radix(v, 16).unwrap())),
        "f64" => Prim::F64(f64::from_bits(u64::from_str_radix(v, 16).unwrap())),
        "b" => Prim::B(v == "1"),
        "s" => Prim::S(String::from_utf8(unhex(v)).unwrap()),
        "c" => Prim::C(char::from_u32(u32::from_str_radix(v, 16).unwrap()).unwrap()),
        "y" => Prim::Y(unhex(v)),
        _ => panic!("bad prim"),
    }
}

/// `from <prim>`: `Value::from(prim)`.
pub fn exec_from(t: &[&str]) -> String {
    let v = match parse_prim(t[1]) {
        Prim::I(8, n) => Value::from(n as i8),
        Prim::I(16, n) => Value::from(n as i16),
        Prim::I(32, n) => Value::from(n as i32),
        Prim::I(_, n) => Value::from(n),
        Prim::U(8, n) => Value::from(n as u8),
        Prim::U(16, n) => Value::from(n as u16),
        Prim::U(32, n) => Value::from(n as u32),
        Prim::U(_, n) => Value::from(n),
        Prim::F32(f) => Value::from(f),
        Prim::F64(f) => Value::from(f),
        Prim::B(b) => Value::from(b),
        Prim::S(s) => {
            // every owned / borrowed flavour of a string converts to the same value, as do the constructors
            let v = Value::from(s.as_str());
            let flavours = [Value::from(s.clone()), Value::from(s.clone().into_boxed_str()), Value::from(std::borrow::Cow::Borrowed(s.as_str())),
                            Value::from(std::borrow::Cow::<str>::Owned(s.clone())), Value::string(s.as_str()), Value::string(s.clone())];
            if flavours.iter().any(|f| enc_value(f) != enc_value(&v)) { return "flavours-differ".into(); }
            // the same payload as a symbol and a keyword, and pairs / vectors built from it
            let (sy, kw) = (Value::symbol(s.as_str()), Value::keyword(s.clone()));
            if sy.as_symbol() != Some(s.as_str()) || kw.as_keyword() != Some(s.as_str()) || sy.as_name() != Some(s.as_str()) || sy.as_str().is_some() { return "name-constructors-differ".into(); }
            let pair = Value::from((s.as_str(), 7u8));
            let pair_ok = match pair.as_pair() { Some((a, d)) => a.as_str() == Some(s.as_str()) && d.as_u64() == Some(7), None => false }
                && enc_value(&Value::from(lexpr::Cons::new(s.as_str(), 7u8))) == enc_value(&pair) && enc_value(&Value::cons(s.as_str(), 7u8)) == enc_value(&pair);
            let items = vec![v.clone(), sy.clone(), Value::Null];
            let (vec1, vec2, vec3) = (Value::from(items.clone()), Value::from(items.clone().into_boxed_slice()), Value::vector(items.clone()));
            let vec_ok = vec1.as_slice().map(|x| x.iter().map(enc_value).collect::<Vec<_>>()) == Some(items.iter().map(enc_value).collect::<Vec<_>>())
                && enc_value(&vec2) == enc_value(&vec1) && enc_value(&vec3) == enc_value(&vec1);
            if !pair_ok || !vec_ok { return "pair-or-vector-conversion-differs".into(); }
            v
        }
        Prim::C(c) => Value::from(c),
        Prim::Y(b) => {
            let v = Value::from(&b[..]);
            let flavours = [Value::from(b.clone()), Value::from(b.clone().into_boxed_slice()), Value::bytes(b.clone()), Value::bytes(&b[..])];
            if flavours.iter().any(|f| enc_value(f) != enc_value(&v)) { return "flavours-differ".into(); }
            v
        }
    };
    // From<Number> keeps the number
    if let Some(n) = v.as_number() { if enc_value(&Value::from(n.clone())) != enc_value(&v) { return "number-conversion-differs".into(); } }
    enc_value(&v)
}

macro_rules! cmp_all {
    ($v:expr, $p:expr) => {{
        let v: &Value = $v;
        let mut vm = v.clone();
        let a = *v == $p;
        let b = $p == *v;
        let c = v == $p;
        let d = (&mut vm) == $p;
        format!("{}{}{}{}", a as u8, b as u8, c as u8, d as u8)
    }};
}

/// `cmp <prim> <value>`: `v == p`, `p == v`, `&v == p`, `&mut v == p`.
pub fn exec_cmp(t: &[&str]) -> String {
    let p = parse_prim(t[1]);
    let mut it = t[2..].iter().copied();
    let v = dec_value(&mut it);
    match p {
        Prim::I(8, n) => cmp_all!(&v, n as i8),
        Prim::I(16, n) => cmp_all!(&v, n as i16),
        Prim::I(32, n) => cmp_all!(&v, n as i32),
        Prim::I(_, n) => cmp_all!(&v, n),
        Prim::U(8, n) => cmp_all!(&v, n as u8),
        Prim::U(16, n) => cmp_all!(&v, n as u16),
        Prim::U(32, n) => cmp_all!(&v, n as u32),
        Prim::U(_, n) => cmp_all!(&v, n),
        Prim::F32(f) => cmp_all!(&v, f),
        Prim::F64(f) => cmp_all!(&v, f),
        Prim::B(b) => cmp_all!(&v, b),
        Prim::S(s) => {
            let a = v == *s.as_str();
            let b = *s.as_str() == v;
            let c = v == s.as_str();
            let d = s.as_str() == v;
            let e = v == s;
            let f = s == v;
            format!("{}{}{}{}{}{}", a as u8, b as u8, c as u8, d as u8, e as u8, f as u8)
        }
        _ => "-".into(),
    }
}

/// `print <P7|D> <value>`: emission trace. `D` = `to_writer` (DefaultFormatter).
pub fn exec_print(t: &[&str]) -> String {
    let mut it = t[2..].iter().copied();
    let v = dec_value(&mut it);
    let mut tr = Trace { bytes: vec![], labels: vec![] };
    let r = catch_unwind(AssertUnwindSafe(|| {
        if t[1] == "D" {
            lexpr::to_writer(&mut tr, &v)
        } else {
            lexpr::to_writer_custom(&mut tr, &v, print_opts(t[1]))
        }
    }));
    match r {
        Ok(Ok(())) => format!("ok {} {}", hex(&tr.bytes), rle(&tr.labels)),
        Ok(Err(_)) => format!("err {} {}", hex(&tr.bytes), rle(&tr.labels)),
        Err(_) => "panic".into(),
    }
}

/// `opts R <start> <setter>*` / `opts P <start> <setter>*`: a chain of builder calls on an option value.
/// Parser options: `R <digits from the getters> <digits from the reader's behaviour on probe tokens>`;
/// printer options (no getters): `P <digits from the printer's behaviour on probe values>`.
pub fn exec_opts(t: &[&str]) -> String {
    let r = catch_unwind(AssertUnwindSafe(|| {
        if t[1] == "R" {
            use lexpr::parse::*;
            let mut o = match t[2] { "new" => Options::new(), "elisp" => Options::elisp(), _ => Options::default() };
            let kw = |c: u8| match c { b'0' => KeywordSyntax::ColonPrefix, b'1' => KeywordSyntax::ColonPostfix, _ => KeywordSyntax::Octothorpe };
            for op in &t[3..] {
                let b = op.as_bytes();
                o = match b[0] {
                    b'k' => o.with_keyword_syntax(kw(b[1])),
                    b'K' => o.with_keyword_syntaxes(b[1..].iter().map(|c| kw(*c)).collect::<Vec<_>>()),
                    b'n' => o.with_nil_symbol(match b[1] { b'0' => NilSymbol::EmptyList, b'1' => NilSymbol::Default, _ => NilSymbol::Special }),
                    b't' => o.with_t_symbol(if b[1] == b'0' { TSymbol::True } else { TSymbol::Default }),
                    b'b' => o.with_brackets(if b[1] == b'0' { Brackets::List } else { Brackets::Vector }),
                    b's' => o.with_string_syntax(if b[1] == b'0' { StringSyntax::R6RS } else { StringSyntax::Elisp }),
                    b'c' => o.with_char_syntax(if b[1] == b'0' { CharSyntax::R6RS } else { CharSyntax::Elisp }),
                    b'r' => o.with_racket_hash_percent_symbols(b[1] == b'1'),
                    b'd' => o.with_leading_digit_symbols(b[1] == b'1'),
                    _ => return "bad-op".to_string(),
                };
            }
            let bit = |x: bool| if x { '1' } else { '0' };
            let mut g = String::new();
            g.push(bit(o.keyword_syntax(KeywordSyntax::ColonPrefix)));
            g.push(bit(o.keyword_syntax(KeywordSyntax::ColonPostfix)));
            g.push(bit(o.keyword_syntax(KeywordSyntax::Octothorpe)));
            g.push(match o.nil_symbol() { NilSymbol::EmptyList => '0', NilSymbol::Default => '1', NilSymbol::Special => '2' });
            g.push(match o.t_symbol() { TSymbol::True => '0', TSymbol::Default => '1' });
            g.push(match o.brackets() { Brackets::List => '0', Brackets::Vector => '1' });
            g.push(match o.string_syntax() { StringSyntax::R6RS => '0', StringSyntax::Elisp => '1' });
            g.push(match o.char_syntax() { CharSyntax::R6RS => '0', CharSyntax::Elisp => '1' });
            g.push(bit(o.racket_hash_percent_symbols()));
            g.push(bit(o.leading_digit_symbols()));
            // behaviour on probe tokens
            let p = |s: &str| lexpr::from_str_custom(s, o);
            let is_kw = |s: &str| matches!(p(s), Ok(Value::Keyword(ref k)) if &**k == "a");
            let mut h = String::new();
            h.push(bit(is_kw(":a")));
            h.push(bit(is_kw("a:")));
            h.push(bit(is_kw("#:a")));
            h.push(match p("nil") { Ok(Value::Null) => '0', Ok(Value::Symbol(_)) => '1', Ok(Value::Nil) => '2', _ => 'X' });
            h.push(match p("t") { Ok(Value::Bool(true)) => '0', Ok(Value::Symbol(_)) => '1', _ => 'X' });
            h.push(match p("[a]") { Ok(Value::Cons(_)) => '0', Ok(Value::Vector(_)) => '1', _ => 'X' });
            h.push(match p("\"\\x41;\"") { Ok(Value::String(ref s)) if &**s == "A" => '0', Ok(Value::Bytes(ref b)) if &**b == b"A;" => '1', _ => 'X' });
            h.push(match p("?a") { Ok(Value::Char('a')) => '1', Ok(Value::Symbol(_)) => '0', _ => 'X' });
            h.push(match p("#%a") { Ok(Value::Symbol(_)) => '1', Err(_) => '0', _ => 'X' });
            h.push(match p("1+") { Ok(Value::Symbol(_)) => '1', Err(_) => '0', _ => 'X' });
            format!("R {} {}", g, h)
        } else {
            use lexpr::print::*;
            let mut o = match t[2] { "elisp" => Options::elisp(), _ => Options::default() };
            for op in &t[3..] {
                let b = op.as_bytes();
                o = match b[0] {
                    b'k' => o.with_keyword_syntax(match b[1] { b'0' => KeywordSyntax::ColonPrefix, b'1' => KeywordSyntax::ColonPostfix, _ => KeywordSyntax::Octothorpe }),
                    b'n' => o.with_nil_syntax(match b[1] { b'0' => NilSyntax::Symbol, b'1' => NilSyntax::Token, b'2' => NilSyntax::EmptyList, _ => NilSyntax::False }),
                    b'o' => o.with_bool_syntax(if b[1] == b'0' { BoolSyntax::Token } else { BoolSyntax::Symbol }),
                    b'v' => o.with_vector_syntax(if b[1] == b'0' { VectorSyntax::Octothorpe } else { VectorSyntax::Brackets }),
                    b'y' => o.with_bytes_syntax(match b[1] { b'0' => BytesSyntax::R6RS, b'1' => BytesSyntax::R7RS, _ => BytesSyntax::Elisp }),
                    b's' => o.with_string_syntax(if b[1] == b'0' { StringSyntax::R6RS } else { StringSyntax::Elisp }),
                    b'c' => o.with_char_syntax(if b[1] == b'0' { CharSyntax::R6RS } else { CharSyntax::Elisp }),
                    _ => return "bad-op".to_string(),
                };
            }
            let pr = |v: Value| lexpr::to_string_custom(&v, o).unwrap_or_default();
            let mut h = String::new();
            h.push(match pr(Value::keyword("k")).as_str() { ":k" => '0', "k:" => '1', "#:k" => '2', _ => 'X' });
            let bool_sym = pr(Value::Bool(true)) == "t";
            // with booleans as symbols, NilSyntax::Symbol and NilSyntax::False both print `nil`: one class 'S'
            h.push(match pr(Value::Nil).as_str() { "nil" => if bool_sym { 'S' } else { '0' }, "#nil" => '1', "()" => '2', "#f" => '3', _ => 'X' });
            h.push(match pr(Value::Bool(true)).as_str() { "#t" => '0', "t" => '1', _ => 'X' });
            h.push(match pr(Value::vector(vec![Value::from(1)])).as_str() { "#(1)" => '0', "[1]" => '1', _ => 'X' });
            h.push(match pr(Value::bytes(vec![1u8])).as_str() { "#vu8(1)" => '0', "#u8(1)" => '1', s if s.starts_with('"') => '2', _ => 'X' });
            h.push({ let s = pr(Value::string("\u{1}")); if s.contains(';') { '0' } else if s.starts_with('"') { '1' } else { 'X' } });
            h.push(match pr(Value::Char('a')).as_str() { "#\\a" => '0', "?a" => '1', _ => 'X' });
            format!("P {}", h)
        }
    }));
    r.unwrap_or_else(|_| "panic".into())
}

/// `sink <P7|D> <sched> <value>`: delivery to a scheduled sink.
pub fn exec_sink(t: &[&str]) -> String {
    let mut it = t[3..].iter().copied();
    let v = dec_value(&mut it);
    let mut sk = SchedSink { sched: parse_sched(t[2]), got: vec![], last_intr: None, calls: 0, tripped: false };
    let r = catch_unwind(AssertUnwindSafe(|| {
        if t[1] == "D" {
            lexpr::to_writer(&mut sk, &v)
        } else {
            lexpr::to_writer_custom(&mut sk, &v, print_opts(t[1]))
        }
    }));
    match r {
        Ok(Ok(())) => format!("ok {}", hex(&sk.got)),
        Ok(Err(_)) => format!("err {}", hex(&sk.got)),
        Err(_) => "panic".into(),
    }
}

/// Printer options corresponding to parser options (C13): a keyword spelling the parser reads,
/// `#nil`/`#t`/`#f` tokens, vector style from the bracket meaning, same string and char syntax.
pub fn pof(r: &str) -> String {
    let d = r.as_bytes();
    let kw = if d[2] == b'1' { 2 } else if d[0] == b'1' { 0 } else if d[1] == b'1' { 1 } else { 2 };
    format!("{}10{}1{}{}", kw, d[5] as char, d[6] as char, d[7] as char)
}

/// the other printer option set that corresponds to a parser reading Emacs Lisp strings: byte vectors
/// written as unibyte strings (what `print::Options::elisp()` does), everything else as `pof`
pub fn pofe(r: &str) -> String {
    let mut p = pof(r).into_bytes();
    p[4] = b'2';
    String::from_utf8(p).unwrap()
}

/// `rt <P7> <R10> <fast> <value>`: print, then parse the text.
pub fn exec_rt(t: &[&str]) -> String {
    let mut it = t[4..].iter().copied();
    let v = dec_value(&mut it);
    let text = match lexpr::to_vec_custom(&v, print_opts(t[1])) {
        Ok(b) => b,
        Err(_) => return "printerr".into(),
    };
    let r = catch_unwind(AssertUnwindSafe(|| lexpr::from_slice_custom(&text, parse_opts(t[2]))));
    match r {
        Ok(r) => format!("{} => {}", hex(&text), item_value(r.map(Some))),
        Err(_) => format!("{} => panic", hex(&text)),
    }
}

/// `sens <fast> <R10> <hex>`: one digit per parser option — does changing that option alone change what
/// `from_slice_custom` makes of the text (value, or error code and position)?
pub fn exec_sens(t: &[&str]) -> String {
    let data = unhex(t[3]);
    let run = |ro: &str| -> String {
        match catch_unwind(AssertUnwindSafe(|| lexpr::from_slice_custom(&data, parse_opts(ro)))) {
            Ok(r) => item_value(r.map(Some)),
            Err(_) => "panic".into(),
        }
    };
    let base = run(t[2]);
    let mut out = String::new();
    for i in 0..10 {
        let cur = t[2].as_bytes()[i];
        let vals: &[u8] = if i == 3 { b"012" } else { b"01" };
        let mut changed = false;
        for v in vals.iter().filter(|v| **v != cur) {
            let mut alt = t[2].as_bytes().to_vec();
            alt[i] = *v;
            if run(std::str::from_utf8(&alt).unwrap()) != base { changed = true; }
        }
        out.push(if changed { '1' } else { '0' });
    }
    out.push_str(" ok");
    out
}

/// `specrd <S|E> <hex text> ;; <value>`: what an independent reader of the documented grammar must make of the
/// text the printer wrote for the value: the value itself (default options), its Emacs Lisp folding (Emacs options).
/// The model side answers with what the specification reader (not the model of the crate's parser) reads.
pub fn exec_specrd(t: &[&str]) -> String {
    let mut it = t[4..].iter().copied();
    let v = dec_value(&mut it);
    let (p, ro) = if t[1] == "E" { (P_ELISP, R_ELISP) } else { (P_DEFAULT, R_DEFAULT) };
    // the text in the operation line is the real printer's (checked again here: the printer is deterministic)
    match lexpr::to_vec_custom(&v, print_opts(p)) {
        Ok(b) if hex(&b) == t[2] => {}
        _ => return "printer-changed-its-mind".into(),
    }
    format!("ok {}", enc_value(&crate::oracle::fold(p, ro, &v)))
}

/// `prefix <R10> <k> <fast> <hex>`: parse the first k bytes.
pub fn exec_prefix(t: &[&str]) -> String {
    let data = unhex(t[4]);
    let k: usize = t[2].parse().unwrap();
    let r = catch_unwind(AssertUnwindSafe(|| lexpr::from_slice_custom(&data[..k], parse_opts(t[1]))));
    match r {
        Ok(r) => item_value(r.map(Some)),
        Err(_) => "panic".into(),
    }
}

/// `pp <R10> <fast> <hex>`: parse, print with the corresponding printer options, parse, print.
pub fn exec_pp(t: &[&str]) -> String {
    let data = if t.len() > 3 { unhex(t[3]) } else { vec![] };
    let ro = parse_opts(t[1]);
    let po = print_opts(&(if t[0] == "ppe" { pofe(t[1]) } else { pof(t[1]) }));
    // the property is about every source: texts that are valid UTF-8 are read as &str every second time
    // (the sources agree on valid UTF-8: C06_str_slice), the others as a byte slice
    let via_str = data.len() % 2 == 1;
    let read = |bytes: &[u8]| match std::str::from_utf8(bytes) {
        Ok(s) if via_str => lexpr::from_str_custom(s, ro),
        _ => lexpr::from_slice_custom(bytes, ro),
    };
    let v = match read(&data) {
        Ok(v) => v,
        Err(e) => return format!("rej {}", err_code(&e)),
    };
    let t1 = lexpr::to_vec_custom(&v, po).unwrap();
    let r2 = read(&t1);
    let t2 = match &r2 {
        Ok(v2) => hex(&lexpr::to_vec_custom(v2, po).unwrap()),
        Err(_) => "-".into(),
    };
    format!("val {} ; {} ; {} ; {}", enc_value(&v), hex(&t1), item_value(r2.map(Some)), t2)
}

/// `triv <fast> <R10> <hex plain> <hex with-trivia>`: the value streams of both texts.
pub fn exec_triv(t: &[&str]) -> String {
    let a = exec(&format!("parse {} b {} r:v:64 {}", t[1], t[2], t[3]));
    let b = exec(&format!("parse {} b {} r:v:64 {}", t[1], t[2], t.get(4).copied().unwrap_or("")));
    format!("{} || {}", a, b)
}

pub fn exec(line: &str) -> String {
    let t: Vec<&str> = line.split_whitespace().collect();
    if t.is_empty() {
        return String::new();
    }
    let r = catch_unwind(AssertUnwindSafe(|| match t[0] {
        "parse" => exec_parse(&t),
        "print" => exec_print(&t),
        "sink" => exec_sink(&t),
        "list" => exec_list(&t),
        "acc" => exec_acc(&t),
        "from" => exec_from(&t),
        "cmp" => exec_cmp(&t),
        "rt" => exec_rt(&t),
        "specrd" => exec_specrd(&t),
        "sens" => exec_sens(&t),
        "prefix" => exec_prefix(&t),
        "pp" | "ppe" => exec_pp(&t),
        "triv" => exec_triv(&t),
        "opts" => exec_opts(&t),
        "clone" => crate::cons_ops::exec_clone(&t),
        "dclone" => crate::cons_ops::exec_dclone(&t),
        "consmut" => crate::cons_ops::exec_consmut(&t),
        // oracle-only (serde types without a term in the model): evaluated in oracle.rs
        "serx" => "oracle-only".to_string(),
        #[cfg(feature = "full")]
        "ser" | "de" | "deser" => crate::serde_ops::exec_serde(&t),
        _ => format!("unknown-op {}", t[0]),
    }));
    match r {
        Ok(s) => s,
        Err(_) => "PANIC".into(),
    }
}
