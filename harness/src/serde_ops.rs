//! serde-lexpr operations over a registry of concrete Rust types (real serde / serde_derive
//! visitors), each described to the model by a `Ty` term.
use crate::codec::*;
use crate::rng::Rng;
use lexpr::Value;
use serde_bytes::ByteBuf;
use serde_derive::{Deserialize, Serialize};
use std::collections::{BTreeMap, BTreeSet};
use std::panic::{catch_unwind, AssertUnwindSafe};

pub trait Canon: Sized + serde::Serialize + serde::de::DeserializeOwned {
    fn ty(out: &mut Vec<String>);
    fn gen(r: &mut Rng, depth: usize) -> Self;
    fn enc(&self, out: &mut Vec<String>);
    fn dec<'a, I: Iterator<Item = &'a str>>(it: &mut I) -> Self;
}

macro_rules! canon_int {
    ($($t:ty, $name:expr, $big:ty);*) => {$(
        impl Canon for $t {
            fn ty(out: &mut Vec<String>) { out.push($name.into()); }
            fn gen(r: &mut Rng, _d: usize) -> Self {
                match r.below(5) {
                    0 => <$t>::MIN, 1 => <$t>::MAX, 2 => 0 as $t, 3 => (r.next() % 200) as $t,
                    _ => r.next() as $t,
                }
            }
            fn enc(&self, out: &mut Vec<String>) { out.push(format!("I{}", self)); }
            fn dec<'a, I: Iterator<Item = &'a str>>(it: &mut I) -> Self { it.next().unwrap()[1..].parse::<$big>().unwrap() as $t }
        }
    )*};
}
canon_int!(i8, "i8", i128; i16, "i16", i128; i32, "i32", i128; i64, "i64", i128; u8, "u8", i128; u16, "u16", i128; u32, "u32", i128; u64, "u64", i128);

fn nice_f64(r: &mut Rng) -> f64 {
    match r.below(6) {
        0 => *r.pick(&[0.0, -0.0, 1.0, -1.5, 0.1, 1e21, 1e-7, 5e-324, 1.7976931348623157e308, 123456.789]),
        1 => (r.below(100000) as f64) / 100.0,
        2 => crate::gen::gen_f64(r),
        _ => (r.next() % 1_000_000_000_000) as f64 * 10f64.powi(r.below(30) as i32 - 15),
    }
}

impl Canon for f64 {
    fn ty(out: &mut Vec<String>) { out.push("f64".into()); }
    fn gen(r: &mut Rng, _d: usize) -> Self { let f = nice_f64(r); if f.is_nan() { 2.5 } else { f } }
    fn enc(&self, out: &mut Vec<String>) { out.push(if self.is_nan() { "Dnan".into() } else { format!("D{:016x}", self.to_bits()) }); }
    fn dec<'a, I: Iterator<Item = &'a str>>(it: &mut I) -> Self { f64::from_bits(u64::from_str_radix(&it.next().unwrap()[1..], 16).unwrap()) }
}
impl Canon for f32 {
    fn ty(out: &mut Vec<String>) { out.push("f32".into()); }
    fn gen(r: &mut Rng, _d: usize) -> Self {
        // now and then a value at which conversions through another representation go wrong: 0x15ae43fd is the one f32
        // (up to sign) whose shortest decimal, read as a double, lies exactly half way between two f32s
        if r.chance(1, 3) { return f32::from_bits(*r.pick(&[0x15ae43fdu32, 0x95ae43fd, 0x15ae43fd, 0x3dcccccd, 0x00800000, 0x00000001, 0x7f7fffff, 0x4b800001, 0x33800000])); }
        let f = nice_f64(r) as f32; if f.is_nan() { 2.5 } else { f }
    }
    fn enc(&self, out: &mut Vec<String>) { out.push(if self.is_nan() { "Dnan".into() } else { format!("D{:016x}", f64::from(*self).to_bits()) }); }
    fn dec<'a, I: Iterator<Item = &'a str>>(it: &mut I) -> Self { f64::from_bits(u64::from_str_radix(&it.next().unwrap()[1..], 16).unwrap()) as f32 }
}
impl Canon for bool {
    fn ty(out: &mut Vec<String>) { out.push("bool".into()); }
    fn gen(r: &mut Rng, _d: usize) -> Self { r.chance(1, 2) }
    fn enc(&self, out: &mut Vec<String>) { out.push(if *self { "T".into() } else { "F".into() }); }
    fn dec<'a, I: Iterator<Item = &'a str>>(it: &mut I) -> Self { it.next().unwrap() == "T" }
}
impl Canon for char {
    fn ty(out: &mut Vec<String>) { out.push("char".into()); }
    fn gen(r: &mut Rng, _d: usize) -> Self { crate::gen::gen_char(r) }
    fn enc(&self, out: &mut Vec<String>) { out.push(format!("C{:x}", *self as u32)); }
    fn dec<'a, I: Iterator<Item = &'a str>>(it: &mut I) -> Self { char::from_u32(u32::from_str_radix(&it.next().unwrap()[1..], 16).unwrap()).unwrap() }
}
impl Canon for String {
    fn ty(out: &mut Vec<String>) { out.push("str".into()); }
    fn gen(r: &mut Rng, _d: usize) -> Self { if r.chance(1, 3) { crate::gen::gen_name(r, true) } else { crate::gen::gen_string(r, 8) } }
    fn enc(&self, out: &mut Vec<String>) { out.push(format!("S{}", hex(self.as_bytes()))); }
    fn dec<'a, I: Iterator<Item = &'a str>>(it: &mut I) -> Self { String::from_utf8(unhex(&it.next().unwrap()[1..])).unwrap() }
}
impl Canon for ByteBuf {
    fn ty(out: &mut Vec<String>) { out.push("bytes".into()); }
    fn gen(r: &mut Rng, _d: usize) -> Self { ByteBuf::from((0..r.below(6)).map(|_| r.below(256) as u8).collect::<Vec<u8>>()) }
    fn enc(&self, out: &mut Vec<String>) { out.push(format!("B{}", hex(self))); }
    fn dec<'a, I: Iterator<Item = &'a str>>(it: &mut I) -> Self { ByteBuf::from(unhex(&it.next().unwrap()[1..])) }
}
impl Canon for () {
    fn ty(out: &mut Vec<String>) { out.push("unit".into()); }
    fn gen(_r: &mut Rng, _d: usize) -> Self {}
    fn enc(&self, out: &mut Vec<String>) { out.push("U".into()); }
    fn dec<'a, I: Iterator<Item = &'a str>>(it: &mut I) -> Self { it.next(); }
}
impl<T: Canon> Canon for Option<T> {
    fn ty(out: &mut Vec<String>) { out.push("opt".into()); T::ty(out); }
    fn gen(r: &mut Rng, d: usize) -> Self { if r.chance(1, 3) { None } else { Some(T::gen(r, d)) } }
    fn enc(&self, out: &mut Vec<String>) { match self { None => out.push("N".into()), Some(x) => { out.push("J".into()); x.enc(out); } } }
    fn dec<'a, I: Iterator<Item = &'a str>>(it: &mut I) -> Self { if it.next().unwrap() == "N" { None } else { Some(T::dec(it)) } }
}
fn gen_len(r: &mut Rng, d: usize) -> usize { if d == 0 { 0 } else { match r.below(6) { 0 => 0, 1 => 1, _ => r.below(5) } } }
impl<T: Canon> Canon for Vec<T> {
    fn ty(out: &mut Vec<String>) { out.push("seq".into()); T::ty(out); }
    fn gen(r: &mut Rng, d: usize) -> Self { let n = gen_len(r, d); (0..n).map(|_| T::gen(r, d.saturating_sub(1))).collect() }
    fn enc(&self, out: &mut Vec<String>) { out.push(format!("L{}", self.len())); for x in self { x.enc(out); } }
    fn dec<'a, I: Iterator<Item = &'a str>>(it: &mut I) -> Self { let n: usize = it.next().unwrap()[1..].parse().unwrap(); (0..n).map(|_| T::dec(it)).collect() }
}
impl<T: Canon + Ord> Canon for BTreeSet<T> {
    fn ty(out: &mut Vec<String>) { out.push("set".into()); T::ty(out); }
    fn gen(r: &mut Rng, d: usize) -> Self { let n = gen_len(r, d); (0..n).map(|_| T::gen(r, d.saturating_sub(1))).collect() }
    fn enc(&self, out: &mut Vec<String>) { out.push(format!("L{}", self.len())); for x in self { x.enc(out); } }
    fn dec<'a, I: Iterator<Item = &'a str>>(it: &mut I) -> Self { let n: usize = it.next().unwrap()[1..].parse().unwrap(); (0..n).map(|_| T::dec(it)).collect() }
}
impl<K: Canon + Ord, V: Canon> Canon for BTreeMap<K, V> {
    fn ty(out: &mut Vec<String>) { out.push("map".into()); K::ty(out); V::ty(out); }
    fn gen(r: &mut Rng, d: usize) -> Self { let n = gen_len(r, d); (0..n).map(|_| (K::gen(r, 0), V::gen(r, d.saturating_sub(1)))).collect() }
    fn enc(&self, out: &mut Vec<String>) { out.push(format!("M{}", self.len())); for (k, v) in self { k.enc(out); v.enc(out); } }
    fn dec<'a, I: Iterator<Item = &'a str>>(it: &mut I) -> Self { let n: usize = it.next().unwrap()[1..].parse().unwrap(); (0..n).map(|_| { let k = K::dec(it); let v = V::dec(it); (k, v) }).collect() }
}
macro_rules! canon_tuple {
    ($n:expr; $($T:ident $i:tt),*) => {
        impl<$($T: Canon),*> Canon for ($($T,)*) {
            fn ty(out: &mut Vec<String>) { out.push("tup".into()); out.push($n.to_string()); $($T::ty(out);)* }
            fn gen(r: &mut Rng, d: usize) -> Self { ($($T::gen(r, d.saturating_sub(1)),)*) }
            fn enc(&self, out: &mut Vec<String>) { out.push(format!("L{}", $n)); $(self.$i.enc(out);)* }
            fn dec<'a, I: Iterator<Item = &'a str>>(it: &mut I) -> Self { it.next(); ($($T::dec(it),)*) }
        }
    };
}
canon_tuple!(1; A 0);
canon_tuple!(2; A 0, B 1);
canon_tuple!(3; A 0, B 1, C 2);

fn hexname(s: &str) -> String { hex(s.as_bytes()) }

macro_rules! canon_struct {
    ($S:ident { $($f:ident : $T:ty),* }) => {
        impl Canon for $S {
            fn ty(out: &mut Vec<String>) { let names: [&str; 0 $(+ { let _ = stringify!($f); 1 })*] = [$(stringify!($f)),*]; let n = names.len(); out.push("struct".into()); out.push(n.to_string()); $(out.push(hexname(stringify!($f))); <$T>::ty(out);)* }
            #[allow(unused_variables)]
            fn gen(r: &mut Rng, d: usize) -> Self { $S { $($f: <$T>::gen(r, d.saturating_sub(1))),* } }
            fn enc(&self, out: &mut Vec<String>) { let names: [&str; 0 $(+ { let _ = stringify!($f); 1 })*] = [$(stringify!($f)),*]; let n = names.len(); out.push(format!("L{}", n)); $(self.$f.enc(out);)* }
            #[allow(unused_variables)]
            fn dec<'a, I: Iterator<Item = &'a str>>(it: &mut I) -> Self { it.next(); $S { $($f: <$T>::dec(it)),* } }
        }
    };
}

#[derive(Serialize, Deserialize, Debug, PartialEq)]
pub struct UnitS;
impl Canon for UnitS {
    fn ty(out: &mut Vec<String>) { out.push("ustruct".into()); }
    fn gen(_r: &mut Rng, _d: usize) -> Self { UnitS }
    fn enc(&self, out: &mut Vec<String>) { out.push("U".into()); }
    fn dec<'a, I: Iterator<Item = &'a str>>(it: &mut I) -> Self { it.next(); UnitS }
}
#[derive(Serialize, Deserialize, Debug, PartialEq)]
pub struct NtU32(u32);
#[derive(Serialize, Deserialize, Debug, PartialEq)]
pub struct NtVec(Vec<u8>);
#[derive(Serialize, Deserialize, Debug, PartialEq)]
pub struct NtOpt(Option<u8>);
macro_rules! canon_newtype {
    ($S:ident, $T:ty) => {
        impl Canon for $S {
            fn ty(out: &mut Vec<String>) { out.push("nstruct".into()); <$T>::ty(out); }
            fn gen(r: &mut Rng, d: usize) -> Self { $S(<$T>::gen(r, d)) }
            fn enc(&self, out: &mut Vec<String>) { self.0.enc(out); }
            fn dec<'a, I: Iterator<Item = &'a str>>(it: &mut I) -> Self { $S(<$T>::dec(it)) }
        }
    };
}
canon_newtype!(NtU32, u32);
canon_newtype!(NtVec, Vec<u8>);
canon_newtype!(NtOpt, Option<u8>);

#[derive(Serialize, Deserialize, Debug, PartialEq)]
pub struct Ts2(u8, String);
impl Canon for Ts2 {
    fn ty(out: &mut Vec<String>) { out.push("tstruct".into()); out.push("2".into()); u8::ty(out); String::ty(out); }
    fn gen(r: &mut Rng, d: usize) -> Self { Ts2(u8::gen(r, d), String::gen(r, d)) }
    fn enc(&self, out: &mut Vec<String>) { out.push("L2".into()); self.0.enc(out); self.1.enc(out); }
    fn dec<'a, I: Iterator<Item = &'a str>>(it: &mut I) -> Self { it.next(); let a = u8::dec(it); let b = String::dec(it); Ts2(a, b) }
}
#[derive(Serialize, Deserialize, Debug, PartialEq)]
pub struct Ts0();
impl Canon for Ts0 {
    fn ty(out: &mut Vec<String>) { out.push("tstruct".into()); out.push("0".into()); }
    fn gen(_r: &mut Rng, _d: usize) -> Self { Ts0() }
    fn enc(&self, out: &mut Vec<String>) { out.push("L0".into()); }
    fn dec<'a, I: Iterator<Item = &'a str>>(it: &mut I) -> Self { it.next(); Ts0() }
}

#[derive(Serialize, Deserialize, Debug, PartialEq)]
pub struct S1 { a: u8, b: String }
canon_struct!(S1 { a: u8, b: String });
#[derive(Serialize, Deserialize, Debug, PartialEq)]
pub struct S2 { u: (), o: Option<u8>, v: Vec<u8>, oo: Option<Option<bool>> }
canon_struct!(S2 { u: (), o: Option<u8>, v: Vec<u8>, oo: Option<Option<bool>> });
#[derive(Serialize, Deserialize, Debug, PartialEq)]
pub struct S0 {}
canon_struct!(S0 {});
#[derive(Serialize, Deserialize, Debug, PartialEq)]
#[serde(rename_all = "kebab-case")]
pub enum E1 { Alpha, Beta(u32), Gamma(u8, String), Delta { x: bool, y: Option<u8> } }
impl Canon for E1 {
    fn ty(out: &mut Vec<String>) {
        out.push("enum".into()); out.push("4".into());
        out.push(hexname("alpha")); out.push("vu".into());
        out.push(hexname("beta")); out.push("vn".into()); u32::ty(out);
        out.push(hexname("gamma")); out.push("vt".into()); out.push("2".into()); u8::ty(out); String::ty(out);
        out.push(hexname("delta")); out.push("vs".into()); out.push("2".into()); out.push(hexname("x")); bool::ty(out); out.push(hexname("y")); <Option<u8>>::ty(out);
    }
    fn gen(r: &mut Rng, d: usize) -> Self {
        match r.below(4) { 0 => E1::Alpha, 1 => E1::Beta(u32::gen(r, d)), 2 => E1::Gamma(u8::gen(r, d), String::gen(r, d)), _ => E1::Delta { x: bool::gen(r, d), y: Option::<u8>::gen(r, d) } }
    }
    fn enc(&self, out: &mut Vec<String>) {
        match self {
            E1::Alpha => { out.push("E0".into()); out.push("U".into()); }
            E1::Beta(x) => { out.push("E1".into()); x.enc(out); }
            E1::Gamma(a, b) => { out.push("E2".into()); out.push("L2".into()); a.enc(out); b.enc(out); }
            E1::Delta { x, y } => { out.push("E3".into()); out.push("L2".into()); x.enc(out); y.enc(out); }
        }
    }
    fn dec<'a, I: Iterator<Item = &'a str>>(it: &mut I) -> Self {
        match it.next().unwrap() {
            "E0" => { it.next(); E1::Alpha }
            "E1" => E1::Beta(u32::dec(it)),
            "E2" => { it.next(); let a = u8::dec(it); let b = String::dec(it); E1::Gamma(a, b) }
            _ => { it.next(); let x = bool::dec(it); let y = Option::<u8>::dec(it); E1::Delta { x, y } }
        }
    }
}
#[derive(Serialize, Deserialize, Debug, PartialEq)]
pub enum E2 { N(Vec<u8>), T(u8, u8), O(Option<u8>), U(()), ET(), ES {}, NN(E1), Plain, OV(Option<Vec<u8>>) }
impl Canon for E2 {
    fn ty(out: &mut Vec<String>) {
        out.push("enum".into()); out.push("9".into());
        out.push(hexname("N")); out.push("vn".into()); <Vec<u8>>::ty(out);
        out.push(hexname("T")); out.push("vt".into()); out.push("2".into()); u8::ty(out); u8::ty(out);
        out.push(hexname("O")); out.push("vn".into()); <Option<u8>>::ty(out);
        out.push(hexname("U")); out.push("vn".into()); <()>::ty(out);
        out.push(hexname("ET")); out.push("vt".into()); out.push("0".into());
        out.push(hexname("ES")); out.push("vs".into()); out.push("0".into());
        out.push(hexname("NN")); out.push("vn".into()); E1::ty(out);
        out.push(hexname("Plain")); out.push("vu".into());
        out.push(hexname("OV")); out.push("vn".into()); <Option<Vec<u8>>>::ty(out);
    }
    fn gen(r: &mut Rng, d: usize) -> Self {
        match r.below(9) { 0 => E2::N(Vec::gen(r, d)), 1 => E2::T(u8::gen(r, d), u8::gen(r, d)), 2 => E2::O(Option::gen(r, d)), 3 => E2::U(()), 4 => E2::ET(), 5 => E2::ES {}, 6 => E2::NN(E1::gen(r, d)), 7 => E2::Plain, _ => E2::OV(Option::gen(r, d)) }
    }
    fn enc(&self, out: &mut Vec<String>) {
        match self {
            E2::N(x) => { out.push("E0".into()); x.enc(out); }
            E2::T(a, b) => { out.push("E1".into()); out.push("L2".into()); a.enc(out); b.enc(out); }
            E2::O(x) => { out.push("E2".into()); x.enc(out); }
            E2::U(x) => { out.push("E3".into()); x.enc(out); }
            E2::ET() => { out.push("E4".into()); out.push("L0".into()); }
            E2::ES {} => { out.push("E5".into()); out.push("L0".into()); }
            E2::NN(x) => { out.push("E6".into()); x.enc(out); }
            E2::Plain => { out.push("E7".into()); out.push("U".into()); }
            E2::OV(x) => { out.push("E8".into()); x.enc(out); }
        }
    }
    fn dec<'a, I: Iterator<Item = &'a str>>(it: &mut I) -> Self {
        match it.next().unwrap() {
            "E0" => E2::N(Vec::dec(it)),
            "E1" => { it.next(); let a = u8::dec(it); let b = u8::dec(it); E2::T(a, b) }
            "E2" => E2::O(Option::dec(it)),
            "E3" => { <()>::dec(it); E2::U(()) }
            "E4" => { it.next(); E2::ET() }
            "E5" => { it.next(); E2::ES {} }
            "E6" => E2::NN(E1::dec(it)),
            "E7" => { it.next(); E2::Plain }
            _ => E2::OV(Option::dec(it)),
        }
    }
}
#[derive(Serialize, Deserialize, Debug, PartialEq)]
pub struct S3 { inner: S1, e: E1, m: BTreeMap<String, E1>, t: (u8, Option<()>) }
canon_struct!(S3 { inner: S1, e: E1, m: BTreeMap<String, E1>, t: (u8, Option<()>) });

pub struct Entry {
    pub name: &'static str,
    pub ty: fn() -> String,
    pub gen: fn(&mut Rng) -> String,
    pub ser: fn(&[&str]) -> (String, Vec<String>),
    pub de: fn(&Value) -> (String, Vec<String>),
}

fn ty_of<T: Canon>() -> String { let mut o = Vec::new(); T::ty(&mut o); o.join(" ") }
fn gen_of<T: Canon>(r: &mut Rng) -> String { let x = T::gen(r, 3); let mut o = Vec::new(); x.enc(&mut o); o.join(" ") }
fn enc_of<T: Canon>(x: &T) -> String { let mut o = Vec::new(); x.enc(&mut o); o.join(" ") }

fn data_floats_close(a: &str, b: &str) -> bool {
    // same encoding up to float tokens, which must be acceptable readings of each other
    let (ta, tb): (Vec<&str>, Vec<&str>) = (a.split_whitespace().collect(), b.split_whitespace().collect());
    ta.len() == tb.len() && ta.iter().zip(tb.iter()).all(|(x, y)| {
        if x == y { return true; }
        if x.starts_with('D') && y.starts_with('D') && x.len() == 17 && y.len() == 17 {
            let fx = f64::from_bits(u64::from_str_radix(&x[1..], 16).unwrap());
            let fy = f64::from_bits(u64::from_str_radix(&y[1..], 16).unwrap());
            return crate::oracle::float_ok(fx, fy, true) || ((fx as f32) == (fy as f32));
        }
        false
    })
}

fn ser_of<T: Canon>(data: &[&str]) -> (String, Vec<String>) {
    let mut msgs = Vec::new();
    let x = T::dec(&mut data.iter().copied());
    let want = enc_of(&x);
    let r = catch_unwind(AssertUnwindSafe(|| serde_lexpr::to_value(&x)));
    let res = match r {
        Ok(Ok(v)) => {
            // C04 value path
            match catch_unwind(AssertUnwindSafe(|| serde_lexpr::from_value::<T>(&v))) {
                Ok(Ok(y)) => { let got = enc_of(&y); if got != want { msgs.push(format!("FAIL C04 value round trip changed the data: {} -> {} -> {}", want, enc_value(&v), got)); } }
                Ok(Err(e)) => msgs.push(format!("FAIL C04 value round trip: own serialization {} rejected: {}", enc_value(&v), e)),
                Err(_) => msgs.push("FAIL C18 from_value panicked on serializer output".into()),
            }
            // C04 text path (finite floats only)
            if !want.contains("D7ff") && !want.contains("Dfff") && !want.contains("Dnan") {
                // every text entry point is the same printer and the same reader
                if let Ok(s) = serde_lexpr::to_string(&x) {
                    let mut w: Vec<u8> = Vec::new();
                    let same_out = serde_lexpr::to_vec(&x).ok().as_deref() == Some(s.as_bytes())
                        && serde_lexpr::to_writer(&mut w, &x).is_ok() && w == s.as_bytes()
                        && serde_lexpr::to_string_custom(&x, lexpr::print::Options::default()).ok().as_deref() == Some(s.as_str())
                        && serde_lexpr::to_vec_custom(&x, lexpr::print::Options::default()).ok().as_deref() == Some(s.as_bytes());
                    if !same_out { msgs.push(format!("FAIL C04 serde-lexpr text entry points (to_string / to_vec / to_writer / *_custom) disagree on {:?}", s)); }
                    let a = serde_lexpr::from_str::<T>(&s).ok().map(|y| enc_of(&y));
                    let b = serde_lexpr::from_slice::<T>(s.as_bytes()).ok().map(|y| enc_of(&y));
                    let c = serde_lexpr::from_reader::<T>(s.as_bytes()).ok().map(|y| enc_of(&y));
                    let d = serde_lexpr::from_str_custom::<T>(&s, lexpr::parse::Options::default()).ok().map(|y| enc_of(&y));
                    if a != b || a != c || a != d { msgs.push(format!("FAIL C04 serde-lexpr from_str / from_slice / from_reader / from_str_custom disagree on {:?}", s)); }
                }
                match serde_lexpr::to_string(&x) {
                    Ok(s) => match catch_unwind(AssertUnwindSafe(|| serde_lexpr::from_str::<T>(&s))) {
                        Ok(Ok(y)) => { let got = enc_of(&y); if !data_floats_close(&want, &got) { msgs.push(format!("FAIL C04 text round trip changed the data: {} -> {:?} -> {}", want, s, got)); } }
                        Ok(Err(e)) => msgs.push(format!("FAIL C04 text round trip: own text {:?} rejected: {}", s, e)),
                        Err(_) => msgs.push("FAIL C18 from_str panicked".into()),
                    },
                    Err(e) => msgs.push(format!("FAIL C04 to_string failed: {}", e)),
                }
            }
            // C14: every integer as the integer of the same mathematical value — the integers of the data and the
            // integer numbers of the serialized value are the same multiset
            let ints = |text: &str, pre: &[char]| -> Vec<i128> {
                let mut v: Vec<i128> = text.split_whitespace().filter(|t| t.len() > 1 && pre.contains(&t.chars().next().unwrap()))
                    .filter_map(|t| t[1..].parse::<i128>().ok()).collect();
                v.sort();
                v
            };
            let venc = enc_value(&v);
            if ints(&want, &['I']) != ints(&venc, &['P', 'M']) {
                msgs.push(format!("FAIL C14 integers of the data {:?} differ from the integers of the serialized value {:?}", ints(&want, &['I']), ints(&venc, &['P', 'M'])));
            }
            format!("ok {}", venc)
        }
        Ok(Err(_)) => "err".into(),
        Err(_) => "panic".into(),
    };
    (res, msgs)
}

/// registry types whose top level is a sequence or tuple position (C14 rejection clause)
const SEQ_TUPLE_TYPES: &[&str] = &["vec_opt", "vec_u8", "vec_string", "vec_vec_i32", "set_u32", "set_string", "tup1", "tup2", "tup_nested", "tup_unit", "tup3", "ts2", "nt_vec", "vec_e2", "vec_tup"];

fn de_of<T: Canon>(v: &Value) -> (String, Vec<String>) {
    let mut msgs = Vec::new();
    let r = catch_unwind(AssertUnwindSafe(|| serde_lexpr::from_value::<T>(v)));
    let res = match r {
        Ok(Ok(x)) => {
            let got = enc_of(&x);
            // C18: accepted encodings are normalised, not misread
            match serde_lexpr::to_value(&x) {
                Ok(v2) => match catch_unwind(AssertUnwindSafe(|| serde_lexpr::from_value::<T>(&v2))) {
                    Ok(Ok(y)) => if enc_of(&y) != got { msgs.push(format!("FAIL C18 re-serialising and deserialising gives a different value: {} vs {}", got, enc_of(&y))); },
                    Ok(Err(e)) => msgs.push(format!("FAIL C18 accepted value {} does not deserialize from its own serialization {}: {}", got, enc_value(&v2), e)),
                    Err(_) => msgs.push("FAIL C18 from_value panicked on re-serialization".into()),
                },
                Err(e) => msgs.push(format!("FAIL C18 to_value failed on a deserialized value: {}", e)),
            }
            format!("ok {}", got)
        }
        Ok(Err(e)) => {
            let cat = format!("{:?}", e.classify());
            if cat != "Data" { msgs.push(format!("FAIL C18 from_value error of category {} (expected Data): {}", cat, e)); }
            format!("err {}", cat)
        }
        Err(_) => { msgs.push("FAIL C18 from_value panicked".into()); "panic".into() }
    };
    (res, msgs)
}

macro_rules! reg {
    ($name:expr, $T:ty) => { Entry { name: $name, ty: ty_of::<$T>, gen: gen_of::<$T>, ser: ser_of::<$T>, de: de_of::<$T> } };
}

pub fn registry() -> Vec<Entry> {
    vec![
        reg!("i8", i8), reg!("i16", i16), reg!("i32", i32), reg!("i64", i64), reg!("u8", u8), reg!("u16", u16), reg!("u32", u32), reg!("u64", u64),
        reg!("f32", f32), reg!("f64", f64), reg!("bool", bool), reg!("char", char), reg!("string", String), reg!("bytebuf", ByteBuf), reg!("unit", ()),
        reg!("opt_u8", Option<u8>), reg!("opt_opt_u8", Option<Option<u8>>), reg!("opt_unit", Option<()>), reg!("opt_vec", Option<Vec<u8>>), reg!("vec_opt", Vec<Option<u8>>),
        reg!("opt_string", Option<String>), reg!("vec_u8", Vec<u8>), reg!("vec_string", Vec<String>), reg!("vec_vec_i32", Vec<Vec<i32>>), reg!("set_u32", BTreeSet<u32>),
        reg!("set_string", BTreeSet<String>), reg!("tup1", (u8,)), reg!("tup2", (u8, String)), reg!("tup_nested", (i32, (bool, char))), reg!("tup_unit", ((), u8)),
        reg!("tup3", (u64, f64, Option<i8>)), reg!("map_string_u32", BTreeMap<String, u32>), reg!("map_u8_string", BTreeMap<u8, String>), reg!("map_char_i64", BTreeMap<char, i64>),
        reg!("map_string_vecopt", BTreeMap<String, Vec<Option<u8>>>), reg!("unit_struct", UnitS), reg!("nt_u32", NtU32), reg!("nt_vec", NtVec), reg!("nt_opt", NtOpt),
        reg!("ts2", Ts2), reg!("ts0", Ts0), reg!("s0", S0), reg!("s1", S1), reg!("s2", S2), reg!("s3", S3), reg!("e1", E1), reg!("e2", E2),
        reg!("vec_e2", Vec<E2>), reg!("map_string_s2", BTreeMap<String, S2>), reg!("opt_e1", Option<E1>), reg!("vec_tup", Vec<(u8, E1)>),
    ]
}

fn split_at_sep<'a>(t: &'a [&'a str]) -> (&'a [&'a str], &'a [&'a str]) {
    let i = t.iter().position(|x| *x == ";;").unwrap();
    (&t[..i], &t[i + 1..])
}

thread_local! { static LAST_MSGS: std::cell::RefCell<Vec<String>> = std::cell::RefCell::new(Vec::new()); }

/// `ser <name> <Ty...> ;; <Data...>`   /   `de <name> <Ty...> ;; <Value...>`
pub fn exec_serde(t: &[&str]) -> String {
    let reg = registry();
    let e = match reg.iter().find(|e| e.name == t[1]) { Some(e) => e, None => return "unknown-type".into() };
    let (_, payload) = split_at_sep(&t[2..]);
    let (res, mut msgs) = if t[0] == "ser" { (e.ser)(payload) } else { let v = dec_value(&mut payload.iter().copied()); (e.de)(&v) };
    if t[0] != "ser" && SEQ_TUPLE_TYPES.contains(&t[1]) {
        // C14: an improper list where a sequence or a tuple is expected is rejected
        let v = dec_value(&mut payload.iter().copied());
        if v.is_cons() && !v.is_list() && !res.starts_with("err") {
            msgs.push(format!("FAIL C14 improper list accepted where a sequence or tuple ({}) is expected: {}", t[1], res));
        }
    }
    if t[0] != "ser" && matches!(t[1], "e1" | "e2" | "opt_e1") {
        // ... and the items of a tuple variant are a tuple position: `(gamma 1 "x" . 5)` is an improper list
        let v = dec_value(&mut payload.iter().copied());
        let tuple_variant = |name: &str| if t[1] == "e2" { name == "T" || name == "ET" } else { name == "gamma" };
        if let Some((Value::Symbol(name), rest)) = v.as_pair() {
            if tuple_variant(name) && rest.is_cons() && !rest.is_list() && !res.starts_with("err") {
                msgs.push(format!("FAIL C14 improper list accepted as the items of tuple variant {}: {}", name, res));
            }
        }
    }
    LAST_MSGS.with(|m| *m.borrow_mut() = msgs);
    res
}

pub fn check(_t: &[&str], _res: &str, m: &mut Vec<String>) {
    LAST_MSGS.with(|l| m.extend(l.borrow_mut().drain(..)));
}

fn to_list_or_vector(v: &Value, r: &mut Rng) -> Value {
    // alternative encodings of a serialized value (C14 acceptance clause, C18)
    match v {
        Value::Vector(xs) => match r.below(3) {
            0 => Value::list(xs.to_vec()),
            1 if !xs.is_empty() => Value::append(xs[..xs.len() - 1].to_vec(), xs[xs.len() - 1].clone()),
            _ => Value::Vector(xs.iter().map(|x| to_list_or_vector(x, r)).collect::<Vec<_>>().into()),
        },
        Value::Cons(c) => {
            let (xs, tail) = c.to_vec();
            match r.below(6) {
                0 if tail.is_null() => Value::Vector(xs.into()),
                1 => Value::append(xs, Value::from(7)),
                2 => Value::append(xs, Value::Nil),
                3 => { let mut ys = xs.clone(); if !ys.is_empty() { let i = r.below(ys.len()); ys.remove(i); } Value::append(ys, tail) }
                4 => { let mut ys = xs.clone(); let i = r.below(ys.len() + 1); let extra = if r.chance(1, 2) && !ys.is_empty() { ys[r.below(ys.len())].clone() } else { crate::gen::gen_value(r, &crate::gen::VCFG_ANY, 1) }; ys.insert(i, extra); Value::append(ys, tail) }
                _ => Value::append(xs.iter().map(|x| if r.chance(1, 3) { to_list_or_vector(x, r) } else { x.clone() }).collect::<Vec<_>>(), tail),
            }
        }
        Value::Symbol(s) => match r.below(4) { 0 => Value::string(&**s), 1 => Value::keyword(&**s), 2 => Value::cons(Value::symbol(&**s), Value::Null), _ => Value::symbol(format!("{}x", s)) },
        Value::String(s) => if r.chance(1, 2) { Value::symbol(&**s) } else { Value::Nil },
        Value::Null => match r.below(3) { 0 => Value::Nil, 1 => Value::Vector(vec![].into()), _ => Value::Bool(false) },
        Value::Number(n) => match r.below(4) { 0 => Value::from(n.as_f64().unwrap_or(0.0)), 1 => Value::from(-1), 2 => Value::from(u64::MAX), _ => Value::from(n.as_f64().unwrap_or(0.0) + 0.5) },
        other => other.clone(),
    }
}

pub fn generate(family: &str, r: &mut Rng, count: usize, emit: &mut dyn FnMut(String)) {
    let reg = registry();
    // standard-library and hand-written types outside the model's type universe (oracle only, see serde_extra.rs)
    if family == "serde" { for _ in 0..(count / 10).max(20) { emit(format!("serx {}", r.below(1_000_000_000))); } }
    if family == "serde" {
        // long flat data whose text is full of `()` tokens (None, unit, empty collections): no nesting at all
        for n in [126usize, 127, 128, 300] {
            for (name, item) in [("vec_opt", "N"), ("vec_vec_i32", "L0"), ("vec_string", "S")] {
                if let Some(e) = reg.iter().find(|e| e.name == name) {
                    emit(format!("ser {} {} ;; L{} {}", name, (e.ty)(), n, vec![item; n].join(" ")));
                }
            }
        }
    }
    for i in 0..count {
        let e = &reg[if i < reg.len() { i } else { r.below(reg.len()) }];
        let ty = (e.ty)();
        let data = (e.gen)(r);
        if family == "serde" {
            emit(format!("ser {} {} ;; {}", e.name, ty, data));
        }
        // well-shaped and alternative encodings for deserialization
        let toks: Vec<&str> = data.split_whitespace().collect();
        let (res, _) = (e.ser)(&toks);
        if let Some(venc) = res.strip_prefix("ok ") {
            let v = dec_value(&mut venc.split_whitespace());
            if family == "serde" {
                emit(format!("de {} {} ;; {}", e.name, ty, enc_value_text(&v)));
                let alt = to_list_or_vector(&v, r);
                emit(format!("de {} {} ;; {}", e.name, ty, enc_value_text(&alt)));
            } else {
                let mut alt = to_list_or_vector(&v, r);
                if r.chance(1, 2) { alt = to_list_or_vector(&alt, r); }
                emit(format!("de {} {} ;; {}", e.name, ty, enc_value_text(&alt)));
                // a value serialized for another type
                let other = &reg[r.below(reg.len())];
                let d2 = (other.gen)(r);
                let t2: Vec<&str> = d2.split_whitespace().collect();
                if let Some(v2) = (other.ser)(&t2).0.strip_prefix("ok ") {
                    emit(format!("de {} {} ;; {}", e.name, ty, v2));
                }
                // an arbitrary value
                let any = crate::gen::gen_value(r, &crate::gen::VCFG_ANY, 2);
                emit(format!("de {} {} ;; {}", e.name, ty, enc_value_text(&any)));
                // finite doubles beyond the range of an f32 (and non-finite ones) wherever a number stands
                if i % 3 == 0 && (e.name.contains("f32") || e.name == "tup3" || e.name.starts_with("s")) {
                    for f in [3.5e38f64, 1e39, -1e300, f64::INFINITY, 3.4028235e38] {
                        let mut big = v.clone();
                        fn put(v: &mut Value, f: f64) -> bool {
                            match v {
                                Value::Number(_) => { *v = Value::from(f); true }
                                Value::Cons(c) => put(c.car_mut(), f) || put(c.cdr_mut(), f),
                                Value::Vector(xs) => { let mut xs2: Vec<Value> = xs.to_vec(); let r = xs2.iter_mut().any(|x| put(x, f)); *v = Value::Vector(xs2.into()); r }
                                _ => false,
                            }
                        }
                        if put(&mut big, f) { emit(format!("de {} {} ;; {}", e.name, ty, enc_value_text(&big))); }
                    }
                }
                // a long string / symbol / byte vector where something else is expected: error reporting quotes or
                // measures the offending value; multi-byte characters sit at every alignment around the byte offsets at
                // which an excerpt might be cut (8, 16, 24, 32, 40, 48, 64, 80, 96, 128, 256)
                if i % 4 == 0 {
                    let pad = r.below(4);
                    let unit = *r.pick(&["é", "€", "😀", "λx", "a"]);
                    let base = *r.pick(&[4usize, 12, 20, 28, 36, 44, 44, 60, 60, 76, 92, 124, 252]);
                    let body = format!("{}{}", "a".repeat(base + pad), unit.repeat(3 + r.below(30)));
                    let long = match r.below(4) { 0 => Value::string(body.as_str()), 1 => Value::symbol(body.as_str()), 2 => Value::keyword(body.as_str()), _ => Value::from(body.as_bytes()) };
                    emit(format!("de {} {} ;; {}", e.name, ty, enc_value_text(&long)));
                    emit(format!("de {} {} ;; {}", e.name, ty, enc_value_text(&Value::list(vec![long.clone(), long]))));
                }
            }
        }
    }
}
