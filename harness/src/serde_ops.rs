//! serde-lexpr operations (filled in below).
use crate::rng::Rng;
pub fn exec_serde(_t: &[&str]) -> String { "unimplemented".into() }
pub fn generate(_family: &str, _r: &mut Rng, _count: usize, _emit: &mut dyn FnMut(String)) {}
pub fn check(_t: &[&str], _res: &str, _m: &mut Vec<String>) {}
