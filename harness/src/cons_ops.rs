//! Operations, generator and direct oracle for the hand-written `Clone` / `PartialEq` / `Drop` of
//! `Cons` and of a datum's span information, and for the mutators / small accessors of `Cons` and its
//! iterators (model: lean/LexprModel/ConsOps.lean, ConsOpsDatum.lean; driver: `execClone`,
//! `execDclone`, `execConsmut` in lean/Driver.lean).
//!
//!   clone   <value> ;; <value>                 -> cl <clone> | <v==c><c==v> <v==w><w==v><v!=w> <cons-level flags>
//!   dclone  <fast> <R10> <hex text> <hex text> -> dtm <value> @ <span tree of the clone> | flags | sub …
//!   consmut <value> ;; <step> …                -> one result per step, joined by " | "
//!
//! Floats are written with their bits (also NaN), so that a clone can be compared bit for bit.
use crate::codec::*;
use crate::gen::*;
use crate::rng::Rng;
use lexpr::{Cons, Value};
use std::panic::{catch_unwind, AssertUnwindSafe};

/// `enc_value`, floats always as bits.
pub fn enc_bits_into(v: &Value, out: &mut Vec<String>) {
    let mut cur = v;
    loop {
        match cur {
            Value::Number(n) if n.is_f64() => out.push(format!("D{:016x}", n.as_f64().unwrap().to_bits())),
            Value::Cons(c) => {
                out.push("c".into());
                enc_bits_into(c.car(), out);
                cur = c.cdr();
                continue;
            }
            Value::Vector(xs) => {
                out.push(format!("V{}", xs.len()));
                for x in xs.iter() {
                    enc_bits_into(x, out);
                }
            }
            other => enc_value_into(other, false, out),
        }
        break;
    }
}

pub fn enc_bits(v: &Value) -> String {
    let mut out = Vec::new();
    enc_bits_into(v, &mut out);
    out.join(" ")
}

fn b(x: bool) -> char {
    if x { '1' } else { '0' }
}

fn pair_str(c: Option<&Cons>) -> String {
    match c {
        Some(c) => {
            let (a, d) = c.as_pair();
            format!("( {} . {} )", enc_bits(a), enc_bits(d))
        }
        None => "_".into(),
    }
}

fn opt_str(v: Option<&Value>) -> String {
    match v {
        Some(v) => enc_bits(v),
        None => "_".into(),
    }
}

fn vec_tail_str(xs: &[&Value], t: &Value) -> String {
    let mut out: Vec<String> = vec!["[".into()];
    for x in xs {
        out.push(enc_bits(x));
    }
    out.push("]".into());
    out.push(enc_bits(t));
    out.join(" ")
}

/// `clone <value> ;; <value>`
pub fn exec_clone(t: &[&str]) -> String {
    let mut it = t[1..].iter().copied();
    let v = dec_value(&mut it);
    assert_eq!(it.next(), Some(";;"));
    let w = dec_value(&mut it);
    let c = v.clone();
    let mut out = format!("cl {} | {}{} {}{}{}", enc_bits(&c), b(v == c), b(c == v), b(v == w), b(w == v), b(v != w));
    // the impls on `Cons` itself, not through `Value`
    match (&v, &w) {
        (Value::Cons(cv), Value::Cons(cw)) => {
            let cc: Cons = cv.clone();
            out.push_str(&format!(" C{}{}{} {}", b(cv == cw), b(cw == cv), b(*cv == cc), enc_bits(&Value::from(cc))));
        }
        (Value::Cons(cv), _) => {
            let cc: Cons = cv.clone();
            out.push_str(&format!(" c{} {}", b(*cv == cc), enc_bits(&Value::from(cc))));
        }
        _ => out.push_str(" -"),
    }
    // every value is dropped here (`impl Drop for Cons`)
    out
}

fn span_str(s: lexpr::datum::Span) -> String {
    format!("{}:{}-{}:{}", s.start().line(), s.start().column(), s.end().line(), s.end().column())
}

/// span tree of a datum with float bits in no place (spans only): the same walk as `ops::enc_info`
fn info_str(d: &lexpr::Datum) -> String {
    let mut info = Vec::new();
    crate::ops::enc_info(d.as_ref(), &mut info);
    let _ = span_str;
    info.join(" ")
}

/// `dclone <fast> <R10> <hex text> <hex text>`
pub fn exec_dclone(t: &[&str]) -> String {
    let opts = parse_opts(t[2]);
    let a = unhex(t.get(3).copied().unwrap_or(""));
    let bb = unhex(t.get(4).copied().unwrap_or(""));
    let d1 = match lexpr::datum::from_slice_custom(&a, opts) {
        Ok(d) => d,
        Err(_) => return "rej".into(),
    };
    let c = d1.clone();
    let mut out = format!("dtm {} @ {} | {}{}", enc_bits(c.value()), info_str(&c), b(d1 == c), b(c == d1));
    match lexpr::datum::from_slice_custom(&bb, opts) {
        Ok(d2) => {
            out.push_str(&format!(" {}{}{}{}", b(d1 == d2), b(d2 == d1), b(d1 != d2), b(d1.value() == d2.value())));
            // `Ref == Ref` (derived: value == value && info == info through the references)
            out.push(b(d1.as_ref() == d2.as_ref()));
        }
        Err(_) => out.push_str(" rej"),
    }
    // `From<Ref> for Datum` clones the value and the span information of a part of the datum
    match d1.list_iter() {
        Some(mut li) => match li.next() {
            Some(r) => {
                let sub = lexpr::Datum::from(r);
                out.push_str(&format!(" | sub {} @ {} {}", enc_bits(sub.value()), info_str(&sub), b(sub.as_ref() == r)));
            }
            None => out.push_str(" | sub none"),
        },
        None => out.push_str(" | nolist"),
    }
    out
}

#[derive(Debug)]
enum Step {
    SetCar(usize, Value),
    SetCdr(usize, Value),
    CarMut(usize, Value),
    CdrMut(usize, Value),
    Car(usize),
    Cdr(usize),
    AsPair(usize),
    SliceSet(usize, Value),
    IntoPair,
    ToVec,
    ToRefVec,
    IntoVec,
    ValueToVec,
    ValueToRefVec,
    Index(usize),
    StartIter,
    StartIntoIter,
    StartListIter,
    Peek,
    Next,
    IsEmpty,
    PeekSetCar(Value),
    PeekSetCdr(Value),
    Clone,
    Eq(Value),
    ConsOnto(u8, Value),
    AppendTo(Vec<Value>),
    Show,
}

fn parse_steps<'a, I: Iterator<Item = &'a str>>(it: &mut I) -> Vec<Step> {
    let mut steps = Vec::new();
    while let Some(tok) = it.next() {
        let (k, rest) = tok.split_at(2.min(tok.len()));
        let n = || rest.parse::<usize>().unwrap_or(0);
        steps.push(match k {
            "sc" => Step::SetCar(n(), dec_value(it)),
            "sd" => Step::SetCdr(n(), dec_value(it)),
            "cm" => Step::CarMut(n(), dec_value(it)),
            "dm" => Step::CdrMut(n(), dec_value(it)),
            "ca" => Step::Car(n()),
            "cd" => Step::Cdr(n()),
            "ap" => Step::AsPair(n()),
            "vs" => Step::SliceSet(n(), dec_value(it)),
            "ip" => Step::IntoPair,
            "tv" => Step::ToVec,
            "rv" => Step::ToRefVec,
            "iv" => Step::IntoVec,
            "vv" => Step::ValueToVec,
            "vr" => Step::ValueToRefVec,
            "ix" => Step::Index(n()),
            "it" => Step::StartIter,
            "ii" => Step::StartIntoIter,
            "li" => Step::StartListIter,
            "pk" => Step::Peek,
            "nx" => Step::Next,
            "ie" => Step::IsEmpty,
            "ps" => Step::PeekSetCar(dec_value(it)),
            "pd" => Step::PeekSetCdr(dec_value(it)),
            "cl" => Step::Clone,
            "eq" => Step::Eq(dec_value(it)),
            "nc" => Step::ConsOnto(0, dec_value(it)),
            "nn" => Step::ConsOnto(1, dec_value(it)),
            "nt" => Step::ConsOnto(2, dec_value(it)),
            "aa" => {
                let k = n();
                Step::AppendTo((0..k).map(|_| dec_value(it)).collect())
            }
            "sh" => Step::Show,
            other => panic!("bad step {}", other),
        });
    }
    steps
}

/// the cell reached by `as_cons_mut()` and `i` times `cdr_mut().as_cons_mut()`
fn cell_mut(root: &mut Value, i: usize) -> Option<&mut Cons> {
    let mut c = root.as_cons_mut()?;
    for _ in 0..i {
        c = c.cdr_mut().as_cons_mut()?;
    }
    Some(c)
}

fn cell_ref(root: &Value, i: usize) -> Option<&Cons> {
    let mut c = root.as_cons()?;
    for _ in 0..i {
        c = c.cdr().as_cons()?;
    }
    Some(c)
}

fn is_iter_step(s: &Step) -> bool {
    matches!(s, Step::Peek | Step::Next | Step::IsEmpty | Step::PeekSetCar(_) | Step::PeekSetCdr(_))
}

fn done(o: Option<()>) -> String {
    match o {
        Some(()) => "ok".into(),
        None => "oob".into(),
    }
}

fn run_script(mut root: Value, mut steps: Vec<Step>) -> Vec<String> {
    let mut out: Vec<String> = Vec::new();
    let mut pos = 0;
    let nil = || Value::Nil;
    while pos < steps.len() {
        // steps own their values: take them out
        let step = std::mem::replace(&mut steps[pos], Step::Show);
        pos += 1;
        match step {
            Step::SetCar(i, x) => out.push(done(cell_mut(&mut root, i).map(|c| c.set_car(x)))),
            Step::SetCdr(i, x) => out.push(done(cell_mut(&mut root, i).map(|c| c.set_cdr(x)))),
            Step::CarMut(i, x) => out.push(done(cell_mut(&mut root, i).map(|c| *c.car_mut() = x))),
            Step::CdrMut(i, x) => out.push(done(cell_mut(&mut root, i).map(|c| *c.cdr_mut() = x))),
            Step::Car(i) => out.push(match cell_ref(&root, i) { Some(c) => enc_bits(c.car()), None => "oob".into() }),
            Step::Cdr(i) => out.push(match cell_ref(&root, i) { Some(c) => enc_bits(c.cdr()), None => "oob".into() }),
            Step::AsPair(i) => out.push(match cell_ref(&root, i) { Some(c) => pair_str(Some(c)), None => "oob".into() }),
            Step::SliceSet(i, x) => out.push(match root.as_slice_mut() {
                Some(s) => {
                    if i < s.len() {
                        s[i] = x;
                        "ok".into()
                    } else {
                        "oob".into()
                    }
                }
                None => "novec".into(),
            }),
            Step::IntoPair => match std::mem::replace(&mut root, nil()) {
                Value::Cons(c) => {
                    let (a, d) = c.into_pair();
                    out.push(format!("( {} . {} )", enc_bits(&a), enc_bits(&d)));
                    root = d;
                }
                other => {
                    root = other;
                    out.push("nocons".into());
                }
            },
            Step::ToVec => out.push(match root.as_cons() {
                Some(c) => {
                    let (xs, t) = c.to_vec();
                    vec_tail_str(&xs.iter().collect::<Vec<_>>(), &t)
                }
                None => "nocons".into(),
            }),
            Step::ToRefVec => out.push(match root.as_cons() {
                Some(c) => {
                    let (xs, t) = c.to_ref_vec();
                    vec_tail_str(&xs, t)
                }
                None => "nocons".into(),
            }),
            Step::IntoVec => out.push(match root.clone() {
                Value::Cons(c) => {
                    let (xs, t) = c.into_vec();
                    vec_tail_str(&xs.iter().collect::<Vec<_>>(), &t)
                }
                _ => "nocons".into(),
            }),
            Step::ValueToVec => out.push(match root.to_vec() {
                Some(xs) => format!("[ {} ]", xs.iter().map(enc_bits).collect::<Vec<_>>().join(" ")),
                None => "none".into(),
            }),
            Step::ValueToRefVec => out.push(match root.to_ref_vec() {
                Some(xs) => format!("[ {} ]", xs.iter().map(|x| enc_bits(x)).collect::<Vec<_>>().join(" ")),
                None => "none".into(),
            }),
            Step::Index(i) => out.push(opt_str(root.get(i))),
            Step::StartIter => match root.as_cons() {
                Some(c) => {
                    out.push("ok".into());
                    let mut iter = c.iter();
                    while pos < steps.len() && is_iter_step(&steps[pos]) {
                        out.push(match &steps[pos] {
                            Step::Peek => pair_str(iter.peek()),
                            Step::Next => pair_str(iter.next()),
                            _ => "noit".into(),
                        });
                        pos += 1;
                    }
                }
                None => out.push("nocons".into()),
            },
            Step::StartIntoIter => match root.clone() {
                Value::Cons(c) => {
                    out.push("ok".into());
                    let mut iter = c.into_iter();
                    while pos < steps.len() && is_iter_step(&steps[pos]) {
                        let st = std::mem::replace(&mut steps[pos], Step::Show);
                        out.push(match st {
                            Step::Peek => pair_str(iter.peek()),
                            Step::Next => match iter.next() {
                                Some((car, rest)) => format!("( {} {} )", enc_bits(&car), opt_str(rest.as_ref())),
                                None => "_".into(),
                            },
                            Step::PeekSetCar(x) => b(iter.peek_mut().map(|c| c.set_car(x)).is_some()).to_string(),
                            Step::PeekSetCdr(x) => b(iter.peek_mut().map(|c| c.set_cdr(x)).is_some()).to_string(),
                            _ => "noit".into(),
                        });
                        pos += 1;
                    }
                }
                _ => out.push("nocons".into()),
            },
            Step::StartListIter => match root.list_iter() {
                Some(mut li) => {
                    out.push("ok".into());
                    while pos < steps.len() && is_iter_step(&steps[pos]) {
                        out.push(match &steps[pos] {
                            Step::Peek => opt_str(li.peek()),
                            Step::Next => opt_str(li.next()),
                            Step::IsEmpty => b(li.is_empty()).to_string(),
                            _ => "noit".into(),
                        });
                        pos += 1;
                    }
                }
                None => out.push("nocons".into()),
            },
            Step::Peek | Step::Next | Step::IsEmpty | Step::PeekSetCar(_) | Step::PeekSetCdr(_) => out.push("noit".into()),
            Step::Clone => {
                let c = root.clone();
                root = c; // the old list is dropped here
                out.push(enc_bits(&root));
            }
            Step::Eq(x) => out.push(b(root == x).to_string()),
            Step::ConsOnto(how, x) => {
                let old = std::mem::replace(&mut root, nil());
                root = match how {
                    0 => Value::cons(x, old),
                    1 => Value::from(Cons::new(x, old)),
                    _ => Value::from((x, old)),
                };
                out.push("ok".into());
            }
            Step::AppendTo(xs) => {
                let old = std::mem::replace(&mut root, nil());
                root = Value::append(xs, old);
                out.push("ok".into());
            }
            Step::Show => out.push(enc_bits(&root)),
        }
    }
    out
}

/// `consmut <value> ;; <step> …`
pub fn exec_consmut(t: &[&str]) -> String {
    let mut it = t[1..].iter().copied();
    let root = dec_value(&mut it);
    assert_eq!(it.next(), Some(";;"));
    let steps = parse_steps(&mut it);
    match catch_unwind(AssertUnwindSafe(move || run_script(root, steps))) {
        Ok(out) => out.join(" | "),
        Err(_) => "panic".into(),
    }
}

// ---------------------------------------------------------------------------------------------
// generator

fn special_float(r: &mut Rng) -> f64 {
    match r.below(8) {
        0 => f64::NAN,
        1 => f64::from_bits(0x7ff0_0000_0000_0001 | (r.next() & 0x000f_ffff_ffff_ffff)), // NaN with a payload
        2 => f64::from_bits(0xfff8_0000_0000_0000 | (r.next() & 0x0007_ffff_ffff_ffff)), // negative quiet NaN
        3 => -0.0,
        4 => 0.0,
        5 => f64::INFINITY,
        6 => f64::NEG_INFINITY,
        _ => gen_f64(r),
    }
}

/// an element of a list: atoms (NaN and signed zeros over-represented), nested lists, vectors of lists
fn gen_elem(r: &mut Rng, depth: usize) -> Value {
    match r.below(12) {
        0 | 1 => Value::from(special_float(r)),
        2 | 3 if depth > 0 => gen_list(r, depth - 1, 6),
        4 if depth > 0 => {
            let n = r.below(4);
            Value::Vector((0..n).map(|_| gen_elem(r, depth - 1)).collect::<Vec<_>>().into())
        }
        5 => Value::from(r.below(4) as u64),
        _ => gen_atom(r, &VCFG_ANY),
    }
}

/// every kind of tail
fn gen_tail(r: &mut Rng, depth: usize) -> Value {
    match r.below(16) {
        0..=5 => Value::Null,
        6 => Value::Nil,
        7 => Value::Bool(r.chance(1, 2)),
        8 => Value::from(special_float(r)),
        9 => Value::from(r.below(3) as u64),
        10 => Value::from(-(1 + r.below(3) as i64)),
        11 if depth > 0 => {
            let n = r.below(3);
            Value::Vector((0..n).map(|_| gen_elem(r, depth - 1)).collect::<Vec<_>>().into())
        }
        _ => loop {
            let a = gen_atom(r, &VCFG_ANY);
            if !a.is_cons() {
                break a;
            }
        },
    }
}

fn gen_len(r: &mut Rng, max: usize) -> usize {
    match r.below(10) {
        0 => 0,
        1 => 1,
        2 => 2,
        3 => 3,
        4 => max,
        5 => max.saturating_sub(1),
        _ => r.below(max + 1),
    }
}

pub fn gen_list(r: &mut Rng, depth: usize, max: usize) -> Value {
    let n = gen_len(r, max);
    let xs: Vec<Value> = (0..n).map(|_| gen_elem(r, depth)).collect();
    Value::append(xs, gen_tail(r, depth))
}

/// `v` with every NaN replaced by a signed zero
fn scrub(v: &Value) -> Value {
    match v {
        Value::Number(n) if n.as_f64().map_or(false, |f| f.is_nan()) => Value::from(-0.0),
        Value::Cons(c) => {
            let (xs, t) = c.to_vec();
            Value::append(xs.iter().map(scrub).collect::<Vec<_>>(), scrub(&t))
        }
        Value::Vector(xs) => Value::Vector(xs.iter().map(scrub).collect::<Vec<_>>().into()),
        other => other.clone(),
    }
}

fn elems_tail(v: &Value) -> (Vec<Value>, Value) {
    match v {
        Value::Cons(c) => c.to_vec(),
        other => (vec![], other.clone()),
    }
}

/// a value related to `v`: equal, differing in the last element, in the tail, in length by one, a
/// prefix, differing in the first element, deep inside a car, by the sign of a zero, of another kind
fn gen_related(r: &mut Rng, v: &Value) -> Value {
    let (mut xs, mut t) = elems_tail(v);
    let n = xs.len();
    match r.below(12) {
        0 | 1 => {} // equal (unless a NaN is inside)
        2 if n > 0 => xs[n - 1] = gen_elem(r, 1),
        3 => t = gen_tail(r, 1),
        4 => xs.push(gen_elem(r, 1)),
        5 if n > 0 => {
            xs.pop();
        }
        6 if n > 0 => {
            let k = r.below(n + 1);
            xs.truncate(k);
            if r.chance(1, 2) {
                t = Value::Null;
            }
        }
        7 if n > 0 => xs[0] = gen_elem(r, 1),
        8 if n > 0 => {
            // change something inside a nested element, or replace a middle element
            let i = r.below(n);
            xs[i] = match &xs[i] {
                Value::Cons(_) => gen_related(r, &xs[i].clone()),
                Value::Vector(ys) => {
                    let mut ys = ys.to_vec();
                    if ys.is_empty() { ys.push(Value::Null) } else { let j = r.below(ys.len()); ys[j] = gen_elem(r, 0); }
                    Value::Vector(ys.into())
                }
                _ => gen_elem(r, 1),
            };
        }
        9 => {
            // -0.0 somewhere (the caller puts 0.0 / NaN at the same place of the other value: `gen_pair`)
            if n > 0 {
                let i = r.below(n);
                xs[i] = Value::from(-0.0);
            } else {
                t = Value::from(-0.0);
            }
        }
        10 => return gen_atom(r, &VCFG_ANY),
        _ => return gen_list(r, 2, 8),
    }
    Value::append(xs, t)
}

/// `v` (possibly adjusted) and a related value; one case in eight: the two differ only by the sign of
/// a zero (equal under `==`), or hold a NaN at the same place (unequal under `==`)
fn gen_pair(r: &mut Rng, v: Value) -> (Value, Value) {
    if r.chance(1, 8) {
        let (mut xs, t) = elems_tail(&v);
        if !xs.is_empty() {
            let i = r.below(xs.len());
            let (f, g) = match r.below(3) {
                0 => (0.0, -0.0),
                1 => (f64::NAN, f64::NAN),
                _ => (f64::from_bits(0x7ff8_0000_0000_0001), f64::NAN),
            };
            let mut ys = xs.clone();
            xs[i] = Value::from(f);
            ys[i] = Value::from(g);
            return (Value::append(xs, t.clone()), Value::append(ys, t));
        }
    }
    let w = gen_related(r, &v);
    (v, w)
}

fn gen_index(r: &mut Rng, n: usize) -> usize {
    match r.below(10) {
        0 => n,
        1 => n + 1 + r.below(7),
        3 => 0,
        4 if n > 0 => n - 1,
        _ => r.below(n.max(1)),
    }
}

fn val_tok(v: &Value) -> String {
    enc_bits(v)
}

fn gen_steps(r: &mut Rng, root: &Value, k: usize) -> Vec<String> {
    let mut steps: Vec<String> = Vec::new();
    // the length is only a guide for the indexes (the script changes it)
    let mut n = match root { Value::Cons(c) => c.iter().count(), _ => 0 };
    let mut i = 0;
    while i < k {
        i += 1;
        match r.below(30) {
            0 | 1 => steps.push(format!("sc{} {}", gen_index(r, n), val_tok(&gen_elem(r, 1)))),
            2 | 3 => {
                let x = if r.chance(1, 2) { gen_list(r, 1, 5) } else { gen_tail(r, 1) };
                steps.push(format!("sd{} {}", gen_index(r, n), val_tok(&x)));
                n = n / 2 + 2;
            }
            4 => steps.push(format!("cm{} {}", gen_index(r, n), val_tok(&gen_elem(r, 1)))),
            5 => {
                let x = if r.chance(1, 2) { gen_list(r, 1, 5) } else { gen_tail(r, 1) };
                steps.push(format!("dm{} {}", gen_index(r, n), val_tok(&x)));
            }
            6 => steps.push(format!("ca{}", gen_index(r, n))),
            7 => steps.push(format!("cd{}", gen_index(r, n))),
            8 => steps.push(format!("ap{}", gen_index(r, n))),
            9 => steps.push(format!("vs{} {}", r.below(4), val_tok(&gen_elem(r, 0)))),
            10 => {
                steps.push("ip".into());
                n = n.saturating_sub(1);
            }
            11 => steps.push((*r.pick(&["tv", "rv", "iv"])).into()),
            12 => steps.push((*r.pick(&["vv", "vr"])).into()),
            13 => steps.push(format!("ix{}", gen_index(r, n))),
            14 | 15 | 16 => {
                // an iterator and a run of calls on it (long enough to run off the end sometimes)
                let kind = *r.pick(&["it", "ii", "li"]);
                steps.push(kind.into());
                let m = if r.chance(1, 3) { n + 4 } else { r.below(n + 5) };
                for _ in 0..m {
                    match r.below(10) {
                        0 | 1 | 2 => steps.push("pk".into()),
                        3 => steps.push("ie".into()),
                        6 | 7 if kind == "li" => steps.push("ie".into()),
                        4 if kind == "ii" => steps.push(format!("ps {}", val_tok(&gen_elem(r, 0)))),
                        5 if kind == "ii" => {
                            let x = if r.chance(1, 2) { gen_list(r, 0, 4) } else { gen_tail(r, 0) };
                            steps.push(format!("pd {}", val_tok(&x)));
                        }
                        _ => steps.push("nx".into()),
                    }
                }
            }
            17 => steps.push("pk".into()),
            18 => steps.push("nx".into()),
            19 => steps.push("cl".into()),
            20 => steps.push(format!("eq {}", val_tok(&gen_related(r, root)))),
            21 => {
                steps.push(format!("{} {}", r.pick(&["nc", "nn", "nt"]), val_tok(&gen_elem(r, 1))));
                n += 1;
            }
            22 => {
                let m = r.below(4);
                let xs: Vec<String> = (0..m).map(|_| val_tok(&gen_elem(r, 0))).collect();
                steps.push(format!("aa{} {}", m, xs.join(" ")).trim_end().to_string());
                n += m;
            }
            _ => steps.push("sh".into()),
        }
    }
    steps.push("sh".into());
    steps
}

pub fn generate(r: &mut Rng, count: usize, emit: &mut dyn FnMut(String)) {
    // datums whose span information has every shape in every position: improper lists whose tail is a vector,
    // a string, a nested improper list; vectors of such; quote forms — copied, compared and walked
    for text in ["(a . #(1 2))", "(a b . #())", "((x . #(1)) . #(2 (3 . #(4))))", "#((a . #(1)) (b . \"s\"))", "(a . \"s\")", "'(a . #(b))",
                 "(a (b . #(c (d . #(e)))) . #(f))", "(#(1) #(2) . #(3))", "(a . (b . (c . #(d))))", "`(a ,@(b . #(c)) . #(d))"] {
        for other in [text, "(a . #(1 3))", "(a . #(1 2) )", "(a b)"] {
            emit(format!("dclone {} {} {} {}", fast_flag(), R_DEFAULT, hex(text.as_bytes()), hex(other.as_bytes())));
        }
        let br = text.replace("#(", "[").replace(')', "]").replace('(', "[");
        let _ = br;
    }
    for text in ["(a . [1 2])", "(a b . [])", "[(a . [1]) (b . \"s\")]", "(a . (b . [c]))"] {
        emit(format!("dclone {} {} {} {}", fast_flag(), R_ELISP, hex(text.as_bytes()), hex(text.as_bytes())));
    }
    for idx in 0..count {
        match r.below(20) {
            0..=7 => {
                let max = if r.chance(1, 10) { 40 } else { 12 };
                let v = match r.below(10) {
                    0 => gen_atom(r, &VCFG_ANY),
                    1 => Value::Vector((0..r.below(4)).map(|_| gen_list(r, 1, 5)).collect::<Vec<_>>().into()),
                    _ => gen_list(r, 2, max),
                };
                // two ops in three without NaN, so that equal pairs and reflexivity are exercised
                let v = if r.chance(2, 3) { scrub(&v) } else { v };
                let (v, w) = gen_pair(r, v);
                let (v, w) = if r.chance(1, 2) { (v, w) } else { (w, v) };
                emit(format!("clone {} ;; {}", enc_bits(&v), enc_bits(&w)));
            }
            8..=16 => {
                let max = if r.chance(1, 8) { 40 } else { 10 };
                let root = match r.below(12) {
                    0 => gen_atom(r, &VCFG_ANY),
                    1 => Value::Vector((0..r.below(4)).map(|_| gen_elem(r, 1)).collect::<Vec<_>>().into()),
                    _ => gen_list(r, 2, max),
                };
                let k = 1 + r.below(10);
                let steps = gen_steps(r, &root, k);
                emit(format!("consmut {} ;; {}", enc_bits(&root), steps.join(" ")));
            }
            _ => {
                // two texts: the same value with other trivia, a related value, or the same text
                let v = if r.chance(1, 6) { gen_value(r, &VCFG_PLAIN, 3) } else { plain_list(r, idx) };
                let mut a = Vec::new();
                let lvl = r.below(2);
                print_with_trivia(r, &v, P_DEFAULT, lvl, &mut a);
                let mut bb = Vec::new();
                match r.below(4) {
                    0 => bb = a.clone(),
                    1 => print_with_trivia(r, &v, P_DEFAULT, 1, &mut bb),
                    2 => {
                        let w = plain_related(r, &v);
                        print_with_trivia(r, &w, P_DEFAULT, lvl, &mut bb);
                    }
                    _ => {
                        bb = a.clone();
                        bb.insert(0, b' ');
                    }
                }
                emit(format!("dclone {} {} {} {}", fast_flag(), R_DEFAULT, hex(&a), hex(&bb)));
            }
        }
    }
}

/// a list that prints and reads back under the default options (no NaN / infinities, plain names)
fn plain_list(r: &mut Rng, _idx: usize) -> Value {
    let max = if r.chance(1, 8) { 40 } else { 8 };
    let n = gen_len(r, max);
    let xs: Vec<Value> = (0..n).map(|_| gen_value(r, &VCFG_PLAIN, 2)).collect();
    let t = if r.chance(1, 3) {
        loop {
            let a = gen_atom(r, &VCFG_PLAIN);
            if !a.is_null() {
                break a;
            }
        }
    } else {
        Value::Null
    };
    Value::append(xs, t)
}

fn plain_related(r: &mut Rng, v: &Value) -> Value {
    let (mut xs, mut t) = elems_tail(v);
    let n = xs.len();
    match r.below(5) {
        0 if n > 0 => xs[n - 1] = gen_atom(r, &VCFG_PLAIN),
        1 => t = if t.is_null() { Value::from(1) } else { Value::Null },
        2 => xs.push(gen_atom(r, &VCFG_PLAIN)),
        3 if n > 0 => {
            xs.pop();
        }
        _ if n > 0 => {
            let i = r.below(n);
            xs[i] = gen_value(r, &VCFG_PLAIN, 1);
        }
        _ => xs.push(Value::Null),
    }
    Value::append(xs, t)
}

// ---------------------------------------------------------------------------------------------
// direct oracle (independent of the model and of the library's `==`)

/// structural equality on the canonical encodings, IEEE on floats
fn tokens_equal(a: &str, bb: &str) -> bool {
    let x: Vec<&str> = a.split_whitespace().collect();
    let y: Vec<&str> = bb.split_whitespace().collect();
    x.len() == y.len()
        && x.iter().zip(y.iter()).all(|(p, q)| {
            if p.starts_with('D') && q.starts_with('D') {
                let f = |s: &str| f64::from_bits(u64::from_str_radix(&s[1..], 16).unwrap_or(0));
                f(p) == f(q)
            } else {
                p == q
            }
        })
}

pub fn check(t: &[&str], res: &str, m: &mut Vec<String>) {
    match t[0] {
        "clone" => {
            let sep = t.iter().position(|x| *x == ";;").unwrap_or(t.len());
            let v = t[1..sep].join(" ");
            let w = t[(sep + 1).min(t.len())..].join(" ");
            let parts: Vec<&str> = res.split(" | ").collect();
            if parts.len() != 2 || !parts[0].starts_with("cl ") {
                m.push(format!("FAIL C15 clone did not complete: {}", &res[..res.len().min(80)]));
                return;
            }
            if parts[0][3..] != v {
                m.push("FAIL C15 the clone of a value is not structurally identical to it".into());
            }
            let f: Vec<&str> = parts[1].split_whitespace().collect();
            let want_vv = tokens_equal(&v, &v);
            let want_vw = tokens_equal(&v, &w);
            if f[0] != format!("{}{}", b(want_vv), b(want_vv)) {
                m.push(format!("FAIL C15 a value and its clone compare {} (structural comparison says {})", f[0], want_vv));
            }
            if f[1] != format!("{}{}{}", b(want_vw), b(want_vw), b(!want_vw)) {
                m.push(format!("FAIL C15 == / != on two lists: {} (structural comparison says {})", f[1], want_vw));
            }
            if f.len() > 3 && (f[2].starts_with('C') || f[2].starts_with('c')) {
                if f[3..].join(" ") != v {
                    m.push("FAIL C15 Cons::clone is not structurally identical".into());
                }
                let want = if f[2].starts_with('C') { format!("C{}{}{}", b(want_vw), b(want_vw), b(want_vv)) } else { format!("c{}", b(want_vv)) };
                if f[2] != want {
                    m.push(format!("FAIL C15 Cons == Cons: {} (structural comparison says {})", f[2], want));
                }
            }
        }
        "dclone" => {
            if res == "rej" {
                return;
            }
            // the clone of a datum carries the spans of a fresh parse of the same text
            let opts = parse_opts(t[2]);
            let a = unhex(t.get(3).copied().unwrap_or(""));
            if let Ok(d) = lexpr::datum::from_slice_custom(&a, opts) {
                let want = format!("dtm {} @ {}", enc_bits(d.value()), info_str(&d));
                let parts: Vec<&str> = res.split(" | ").collect();
                if parts[0] != want {
                    m.push("FAIL C11 the clone of a datum differs from the datum (value or spans)".into());
                    m.push(format!("FAIL C10 walking the clone of a datum with its accessors exposes {} instead of {}", parts[0], want));
                    m.push("FAIL C15 the clone of a datum differs from the datum (value or spans)".into());
                }
                if parts.len() > 1 && !parts[1].starts_with("11") && !want.contains("D7ff") && !want.contains("Dfff") {
                    m.push(format!("FAIL C11 a datum and its clone do not compare equal: {}", parts[1]));
                }
                if t.get(3) == t.get(4) && parts.len() > 1 {
                    let f: Vec<&str> = parts[1].split_whitespace().collect();
                    if f.len() > 1 && f[1] != "11011" && !want.contains("D7ff") && !want.contains("Dfff") {
                        m.push(format!("FAIL C11 two parses of the same text do not compare equal: {}", f[1]));
                    }
                }
            }
        }
        "consmut" => {
            if res == "panic" || res.contains("panic") {
                m.push("FAIL C15 a list accessor or mutator panicked".into());
            }
        }
        _ => {}
    }
}
