//! Canonical text forms shared with the Lean driver (DESIGN.md 4.2).
use lexpr::{Cons, Number, Value};

pub fn hex(b: &[u8]) -> String {
    let mut s = String::with_capacity(b.len() * 2);
    for x in b {
        s.push_str(&format!("{:02x}", x));
    }
    s
}

pub fn unhex(s: &str) -> Vec<u8> {
    let b = s.as_bytes();
    let mut out = Vec::with_capacity(b.len() / 2);
    let mut i = 0;
    while i + 1 < b.len() {
        let h = (b[i] as char).to_digit(16).unwrap() as u8;
        let l = (b[i + 1] as char).to_digit(16).unwrap() as u8;
        out.push(h * 16 + l);
        i += 2;
    }
    out
}

pub fn ryu_text(f: f64) -> String {
    let mut b = ryu::Buffer::new();
    b.format(f).to_string()
}

pub fn enc_number(n: &Number, with_text: bool, out: &mut Vec<String>) {
    if n.is_u64() {
        out.push(format!("P{}", n.as_u64().unwrap()));
    } else if n.is_i64() {
        out.push(format!("M{}", n.as_i64().unwrap()));
    } else {
        let f = n.as_f64().unwrap();
        if with_text {
            out.push(format!("D{:016x}/{}", f.to_bits(), hex(ryu_text(f).as_bytes())));
        } else if f.is_nan() {
            out.push("Dnan".to_string());
        } else {
            out.push(format!("D{:016x}", f.to_bits()));
        }
    }
}

/// Prefix encoding of a value; iterative along the cdr chain.
pub fn enc_value_into(v: &Value, with_text: bool, out: &mut Vec<String>) {
    let mut cur = v;
    loop {
        match cur {
            Value::Nil => out.push("N".into()),
            Value::Null => out.push("U".into()),
            Value::Bool(true) => out.push("T".into()),
            Value::Bool(false) => out.push("F".into()),
            Value::Number(n) => enc_number(n, with_text, out),
            Value::Char(c) => out.push(format!("C{:x}", *c as u32)),
            Value::String(s) => out.push(format!("S{}", hex(s.as_bytes()))),
            Value::Symbol(s) => out.push(format!("Y{}", hex(s.as_bytes()))),
            Value::Keyword(s) => out.push(format!("K{}", hex(s.as_bytes()))),
            Value::Bytes(b) => out.push(format!("B{}", hex(b))),
            Value::Cons(c) => {
                out.push("c".into());
                enc_value_into(c.car(), with_text, out);
                cur = c.cdr();
                continue;
            }
            Value::Vector(xs) => {
                out.push(format!("V{}", xs.len()));
                for x in xs.iter() {
                    enc_value_into(x, with_text, out);
                }
            }
        }
        break;
    }
}

pub fn enc_value(v: &Value) -> String {
    let mut out = Vec::new();
    enc_value_into(v, false, &mut out);
    out.join(" ")
}

pub fn enc_value_text(v: &Value) -> String {
    let mut out = Vec::new();
    enc_value_into(v, true, &mut out);
    out.join(" ")
}

pub fn dec_value<'a, I: Iterator<Item = &'a str>>(toks: &mut I) -> Value {
    // iterative along cdr: collect cars, then fold
    let mut cars: Vec<Value> = Vec::new();
    loop {
        let t = toks.next().expect("value token");
        let (k, rest) = t.split_at(1);
        let v = match k {
            "N" => Value::Nil,
            "U" => Value::Null,
            "T" => Value::Bool(true),
            "F" => Value::Bool(false),
            "P" => Value::from(rest.parse::<u64>().unwrap()),
            "M" => Value::from(rest.parse::<i64>().unwrap()),
            "D" => {
                let bits = rest.split('/').next().unwrap();
                if bits == "nan" {
                    Value::from(f64::NAN)
                } else {
                    Value::from(f64::from_bits(u64::from_str_radix(bits, 16).unwrap()))
                }
            }
            "C" => Value::Char(char::from_u32(u32::from_str_radix(rest, 16).unwrap()).unwrap()),
            "S" => Value::string(String::from_utf8(unhex(rest)).unwrap()),
            "Y" => Value::symbol(String::from_utf8(unhex(rest)).unwrap()),
            "K" => Value::keyword(String::from_utf8(unhex(rest)).unwrap()),
            "B" => Value::bytes(unhex(rest)),
            "c" => {
                cars.push(dec_value(toks));
                continue;
            }
            "V" => {
                let n: usize = rest.parse().unwrap();
                let mut xs = Vec::with_capacity(n);
                for _ in 0..n {
                    xs.push(dec_value(toks));
                }
                Value::Vector(xs.into())
            }
            _ => panic!("bad value token {}", t),
        };
        let mut tail = v;
        while let Some(car) = cars.pop() {
            tail = Value::Cons(Cons::new(car, tail));
        }
        return tail;
    }
}

pub fn parse_opts(s: &str) -> lexpr::parse::Options {
    use lexpr::parse::*;
    let d: Vec<u8> = s.bytes().map(|b| b - b'0').collect();
    // two equivalent ways of building the same option set: the singular keyword calls first, or every other
    // option first and the keyword spellings last through the plural setter (chosen by the option set itself)
    if d.iter().map(|x| *x as u32).sum::<u32>() % 2 == 1 {
        let mut o = if d[9] == 1 && d[8] == 0 { Options::elisp() } else { Options::new() };
        o = o.with_racket_hash_percent_symbols(d[8] == 1).with_leading_digit_symbols(d[9] == 1);
        o = o.with_nil_symbol(match d[3] { 0 => NilSymbol::EmptyList, 1 => NilSymbol::Default, _ => NilSymbol::Special });
        o = o.with_t_symbol(if d[4] == 0 { TSymbol::True } else { TSymbol::Default });
        o = o.with_brackets(if d[5] == 0 { Brackets::List } else { Brackets::Vector });
        o = o.with_string_syntax(if d[6] == 0 { StringSyntax::R6RS } else { StringSyntax::Elisp });
        o = o.with_char_syntax(if d[7] == 0 { CharSyntax::R6RS } else { CharSyntax::Elisp });
        let mut kws = Vec::new();
        if d[0] == 1 { kws.push(KeywordSyntax::ColonPrefix); }
        if d[1] == 1 { kws.push(KeywordSyntax::ColonPostfix); }
        if d[2] == 1 { kws.push(KeywordSyntax::Octothorpe); }
        return o.with_keyword_syntaxes(kws);
    }
    let mut o = Options::new();
    if d[0] == 1 {
        o = o.with_keyword_syntax(KeywordSyntax::ColonPrefix);
    }
    if d[1] == 1 {
        o = o.with_keyword_syntax(KeywordSyntax::ColonPostfix);
    }
    if d[2] == 1 {
        o = o.with_keyword_syntax(KeywordSyntax::Octothorpe);
    }
    o = o.with_nil_symbol(match d[3] {
        0 => NilSymbol::EmptyList,
        1 => NilSymbol::Default,
        _ => NilSymbol::Special,
    });
    o = o.with_t_symbol(if d[4] == 0 { TSymbol::True } else { TSymbol::Default });
    o = o.with_brackets(if d[5] == 0 { Brackets::List } else { Brackets::Vector });
    o = o.with_string_syntax(if d[6] == 0 { StringSyntax::R6RS } else { StringSyntax::Elisp });
    o = o.with_char_syntax(if d[7] == 0 { CharSyntax::R6RS } else { CharSyntax::Elisp });
    o = o.with_racket_hash_percent_symbols(d[8] == 1);
    o = o.with_leading_digit_symbols(d[9] == 1);
    o
}

pub fn print_opts(s: &str) -> lexpr::print::Options {
    use lexpr::print::*;
    let d: Vec<u8> = s.bytes().map(|b| b - b'0').collect();
    Options::default()
        .with_keyword_syntax(match d[0] {
            0 => KeywordSyntax::ColonPrefix,
            1 => KeywordSyntax::ColonPostfix,
            _ => KeywordSyntax::Octothorpe,
        })
        .with_nil_syntax(match d[1] {
            0 => NilSyntax::Symbol,
            1 => NilSyntax::Token,
            2 => NilSyntax::EmptyList,
            _ => NilSyntax::False,
        })
        .with_bool_syntax(if d[2] == 0 { BoolSyntax::Token } else { BoolSyntax::Symbol })
        .with_vector_syntax(if d[3] == 0 { VectorSyntax::Octothorpe } else { VectorSyntax::Brackets })
        .with_bytes_syntax(match d[4] {
            0 => BytesSyntax::R6RS,
            1 => BytesSyntax::R7RS,
            _ => BytesSyntax::Elisp,
        })
        .with_string_syntax(if d[5] == 0 { StringSyntax::R6RS } else { StringSyntax::Elisp })
        .with_char_syntax(if d[6] == 0 { CharSyntax::R6RS } else { CharSyntax::Elisp })
}

pub const P_DEFAULT: &str = "2100100";
pub const P_ELISP: &str = "0011211";
pub const R_DEFAULT: &str = "0011100000";
pub const R_ELISP: &str = "1000111101"; // what parse::Options::elisp() is (checked by the `opts R elisp` operation): `t` stays a symbol

/// One input per error code (the same rows as the regenerated error table, DESIGN.md 4.1).
pub const ERROR_TRIGGERS: &[(&str, &[u8])] = &[
    ("eofList", b"(a"), ("eofVector", b"#(a"), ("eofString", b"\"a"), ("eofValue", b"#"), ("eofChar", b"#\\"),
    ("expectedSomeIdent", b"#q"), ("mismatchedParenthesis", b"(a]"), ("expectedSomeValue", b")"), ("expectedVector", b"#u8 a"),
    ("expectedOctet", b"#u8(256)"), ("invalidEscape", b"\"\\q\""), ("invalidNumber", b"1x"), ("invalidSymbol", b". "),
    ("numberOutOfRange", b"1e999"), ("invalidUnicodeCodePoint", b"\"\\xD800;\""), ("invalidCharacterConstant", b"#\\foo"),
    ("trailingCharacters", b"a b"),
];

fn strip_digits(s: &str) -> String {
    s.chars().filter(|c| !c.is_ascii_digit()).collect()
}

/// The wording of an error message is no property's business: when a Display text is not one of the
/// pinned tree's, the code is recovered from the texts the current build produces for the trigger inputs
/// (compared with all digits removed, so that the location may be formatted in any way).
fn learned_code(text: &str) -> Option<&'static str> {
    static LEARNED: std::sync::OnceLock<Vec<(String, &'static str)>> = std::sync::OnceLock::new();
    let table = LEARNED.get_or_init(|| {
        let mut t: Vec<(String, &'static str)> = Vec::new();
        for (name, input) in ERROR_TRIGGERS {
            if let Err(e) = lexpr::from_slice(input) {
                t.push((strip_digits(&e.to_string()), *name));
            }
        }
        if let Err(e) = lexpr::from_slice("(".repeat(200).as_bytes()) {
            t.push((strip_digits(&e.to_string()), "recursionLimitExceeded"));
        }
        t
    });
    let key = strip_digits(text);
    table.iter().find(|(k, _)| *k == key).map(|(_, n)| *n)
}

/// Error code name from the Display text of a parse error.
pub fn err_code(e: &lexpr::parse::Error) -> String {
    use lexpr::parse::error::Category;
    if e.classify() == Category::Io {
        return "io".to_string();
    }
    let text = e.to_string();
    let msg = match text.find(" at line ") {
        Some(i) => &text[..i],
        None => &text[..],
    };
    let code = match msg {
        "EOF while parsing a list" => "eofList",
        "EOF while parsing a vector" => "eofVector",
        "EOF while parsing a string" => "eofString",
        "EOF while parsing a value" => "eofValue",
        "EOF while parsing a character constant" => "eofChar",
        "expected ident" => "expectedSomeIdent",
        "expected value" => "expectedSomeValue",
        "expected vector" => "expectedVector",
        "expected octet" => "expectedOctet",
        "invalid escape" => "invalidEscape",
        "invalid number" => "invalidNumber",
        "invalid symbol" => "invalidSymbol",
        "mismatched parenthesis" => "mismatchedParenthesis",
        "number out of range" => "numberOutOfRange",
        "invalid unicode code point" => "invalidUnicodeCodePoint",
        "invalid character constant" => "invalidCharacterConstant",
        "trailing characters" => "trailingCharacters",
        "recursion limit exceeded" => "recursionLimitExceeded",
        _ => match learned_code(&text) {
            Some(c) => c,
            None => return format!("unknown[{}]", msg),
        },
    };
    let loc = e.location().map(|l| (l.line(), l.column())).unwrap_or((0, 0));
    format!("err {} {} {}", code, loc.0, loc.1)
}

/// Last violation of the documented conversion to `std::io::Error` (C19), drained by the oracle.
pub static KIND_FAIL: std::sync::Mutex<Option<String>> = std::sync::Mutex::new(None);

/// `err_code`, and on the way check the conversion clause of C19 on this very error:
/// Syntax -> InvalidData, Eof -> UnexpectedEof, Io -> the original error (kind and message).
pub fn err_item(e: lexpr::parse::Error) -> String {
    use lexpr::parse::error::Category;
    let code = err_code(&e);
    let cat = e.classify();
    let src = std::error::Error::source(&e).map(|s| s.to_string());
    // the three predicates are the category, and only syntax / EOF errors carry a location
    let preds_ok = e.is_io() == (cat == Category::Io) && e.is_syntax() == (cat == Category::Syntax) && e.is_eof() == (cat == Category::Eof)
        && (e.location().is_some() || cat == Category::Io);
    if !preds_ok {
        *KIND_FAIL.lock().unwrap() = Some(format!("is_io/is_syntax/is_eof/location disagree with classify() = {:?} ({})", cat, code));
    }
    let conv = std::panic::catch_unwind(std::panic::AssertUnwindSafe(move || std::io::Error::from(e)));
    let bad = match conv {
        Err(_) => Some("the conversion to io::Error panicked".to_string()),
        Ok(ioe) => {
            let want = match cat {
                Category::Syntax => Some(std::io::ErrorKind::InvalidData),
                Category::Eof => Some(std::io::ErrorKind::UnexpectedEof),
                Category::Io => None,
            };
            match want {
                Some(k) if ioe.kind() != k => Some(format!("category {:?} converts to io::ErrorKind::{:?}", cat, ioe.kind())),
                None if src.as_deref() != Some(&ioe.to_string()[..]) => Some(format!("I/O error {:?} converts to a different error {:?}", src, ioe.to_string())),
                _ => None,
            }
        }
    };
    if let Some(b) = bad {
        *KIND_FAIL.lock().unwrap() = Some(format!("{} ({})", b, code));
    }
    code
}
