//! Harness for the lexpr verification: generates operation lines, executes them on the real
//! code in-process, evaluates the properties' own statements (direct oracle), probes tables.
//!
//!   harness gen <family> <seed> <count>          -> op lines on stdout
//!   harness exec [oracle-file]  < ops            -> one result line per op on stdout
//!   harness tables                               -> Lean source of Generated/Tables.lean
//!   harness depth <op> <shape> <n>               -> runs one long-list operation (child process)
mod codec;
mod cons_ops;
mod gen;
mod ops;
mod oracle;
mod rng;
#[cfg(feature = "full")]
mod serde_ops;
#[cfg(feature = "full")]
mod serde_extra;
mod tables;

use std::io::{BufRead, Write};

fn main() {
    let args: Vec<String> = std::env::args().collect();
    if args.len() < 2 {
        eprintln!("usage: harness gen|exec|tables|depth ...");
        std::process::exit(2);
    }
    // panics are outcomes, keep stderr quiet
    std::panic::set_hook(Box::new(|_| {}));
    match args[1].as_str() {
        "gen" => {
            let family = &args[2];
            let seed: u64 = args[3].parse().unwrap();
            let count: usize = args[4].parse().unwrap();
            let out = std::io::stdout();
            let mut out = std::io::BufWriter::new(out.lock());
            gen::generate(family, seed, count, &mut |l: String| {
                writeln!(out, "{}", l).unwrap();
            });
        }
        "exec" => {
            let mut oracle_out: Option<std::fs::File> =
                args.get(2).map(|p| std::fs::File::create(p).unwrap());
            let stdin = std::io::stdin();
            let out = std::io::stdout();
            let mut out = std::io::BufWriter::new(out.lock());
            // VERIF_PROGRESS=<file>: the index of the operation being executed is kept in that file, so that the driver
            // script can name the operation on which the process died (only used after a first run has died)
            let mut progress = std::env::var("VERIF_PROGRESS").ok().map(|p| std::fs::File::create(p).unwrap());
            for (idx, line) in stdin.lock().lines().enumerate() {
                let line = line.unwrap();
                if let Some(f) = progress.as_mut() {
                    use std::io::{Seek, SeekFrom};
                    f.seek(SeekFrom::Start(0)).unwrap();
                    write!(f, "{:012}", idx).unwrap();
                }
                let res = ops::exec(&line);
                writeln!(out, "{}", res).unwrap();
                if let Some(f) = oracle_out.as_mut() {
                    for msg in oracle::check(&line, &res) {
                        writeln!(f, "{}\t{}", msg, line).unwrap();
                    }
                }
            }
        }
        "tables" => tables::emit(),
        "depth" => {
            let code = oracle::depth_main(&args[2..]);
            std::process::exit(code);
        }
        _ => {
            eprintln!("unknown subcommand");
            std::process::exit(2);
        }
    }
}
