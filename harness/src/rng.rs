//! The single PRNG every random choice derives from (xorshift64*).
pub struct Rng(pub u64);

impl Rng {
    pub fn new(seed: u64) -> Rng {
        let mut r = Rng(seed.wrapping_mul(0x9E3779B97F4A7C15) ^ 0xD1B54A32D192ED03);
        if r.0 == 0 {
            r.0 = 0x2545F4914F6CDD1D;
        }
        for _ in 0..4 {
            r.next();
        }
        r
    }
    pub fn next(&mut self) -> u64 {
        let mut x = self.0;
        x ^= x >> 12;
        x ^= x << 25;
        x ^= x >> 27;
        self.0 = x;
        x.wrapping_mul(0x2545F4914F6CDD1D)
    }
    pub fn below(&mut self, n: usize) -> usize {
        if n == 0 {
            0
        } else {
            (self.next() % n as u64) as usize
        }
    }
    pub fn chance(&mut self, num: usize, den: usize) -> bool {
        self.below(den) < num
    }
    pub fn pick<'a, T>(&mut self, xs: &'a [T]) -> &'a T {
        &xs[self.below(xs.len())]
    }
    pub fn fork(&mut self) -> Rng {
        Rng::new(self.next())
    }
}
