//! Case generators. Every random choice derives from one `Rng`, so (family, seed, count)
//! replays exactly.
use crate::codec::*;
use crate::rng::Rng;
use lexpr::{Cons, Value};

pub const ALPHA_UNI: &[char] = &['λ', 'é', 'ß', 'Ω', '日', 'ａ', '𝒜', 'ǅ', 'ª', 'µ'];
pub const NONALPHA_UNI: &[char] = &['€', '→', '\u{a0}', '\u{2028}', '😀', '\u{fffd}', '٣', '\u{300}'];
pub const SPECIAL_INITIAL: &[u8] = b"!$%&*/:<=>?^_~@";

pub fn gen_char(r: &mut Rng) -> char {
    match r.below(12) {
        0 => char::from(r.below(32) as u8),
        1 => *r.pick(&['\n', '\n', '^', '"', '\\', '\u{7f}', ' ', '(', ')', '[', ']', ';', '#', '|', '\'', '`', ',', '.', '?']),
        2 => char::from_u32(0x80 + r.below(0x80) as u32).unwrap(),
        3 => *r.pick(&['\u{7ff}', '\u{800}', '\u{d7ff}', '\u{e000}', '\u{ffff}', '\u{10000}', '\u{10ffff}', '\u{fffe}', '\u{ff}', '\u{100}', '\u{80}', '\u{7f}']),
        4 => *r.pick(ALPHA_UNI),
        5 => *r.pick(NONALPHA_UNI),
        6 => loop {
            if let Some(c) = char::from_u32(r.below(0x110000) as u32) {
                break c;
            }
        },
        _ => char::from(32 + r.below(95) as u8),
    }
}

pub fn gen_string(r: &mut Rng, maxlen: usize) -> String {
    let n = match r.below(8) {
        0 => 0,
        1 => 1,
        _ => r.below(maxlen + 1),
    };
    (0..n).map(|_| gen_char(r)).collect()
}

fn ident_initial(r: &mut Rng) -> String {
    match r.below(10) {
        0 | 1 => char::from(*r.pick(SPECIAL_INITIAL)).to_string(),
        2 => r.pick(ALPHA_UNI).to_string(),
        3 => char::from(b'A' + r.below(26) as u8).to_string(),
        _ => char::from(b'a' + r.below(26) as u8).to_string(),
    }
}

fn ident_subsequent(r: &mut Rng) -> String {
    match r.below(10) {
        0 => char::from(b'0' + r.below(10) as u8).to_string(),
        1 => char::from(*r.pick(b"+-.@")).to_string(),
        2 => r.pick(ALPHA_UNI).to_string(),
        _ => ident_initial(r),
    }
}

pub const PECULIAR: &[&str] = &[
    "+", "-", "...", "+a", "-a", "+-", "--", "++", "-+", "+.x", "-.foo", "+..", "-.-", ".x", "..",
    ".a.b", "->", "-->", "+@", "-@x", ".+", ".-", "+!", "-?", "1+", "<=>", "+.@",
];

pub const ODD_NAMES: &[&str] = &[
    "nil", "t", ":a", "a:", ":a:", "::", ":", "?a", "?", "1a", "12", "1.5", "-1", "+1", "a#b", "a\"b",
    "a|b", "", "a b", "#t", "#foo", ".", "a'b", "a,b", "a`b", "nil:", "tt", "nilx", "#%a", "a;b", "a(b",
    "1e3", "-", "λ:", "$x:", "+foo:", "x:", "0x10", "1/2", "é", "\u{a0}x", "a\tb",
];

/// plain identifiers that are near misses of spellings the reader treats specially (case variants of
/// nil / t, prefixes and extensions of reserved names, radix and exponent letters)
pub const NEAR_RESERVED: &[&str] = &[
    "NIL", "Nil", "nIl", "niL", "T", "nill", "ni", "il", "tt", "tru", "true", "false", "f", "nul", "null", "quote",
    "quasiquote", "unquote", "unquote-splicing", "nil.", "t.", "nil-", "t+", "nil@", "e", "E", "x", "b", "o", "d", "e1", "E5",
    "x1F", "b101", "i", "inf", "nan", "u8", "vu8", "newline", "space", "N", "U", "nilnil", "t-t",
];

pub fn gen_ident(r: &mut Rng) -> String {
    match r.below(11) {
        0 => r.pick(PECULIAR).to_string(),
        10 => r.pick(NEAR_RESERVED).to_string(),
        1 => {
            // short
            ident_initial(r)
        }
        _ => {
            let mut s = ident_initial(r);
            for _ in 0..r.below(7) {
                s.push_str(&ident_subsequent(r));
            }
            s
        }
    }
}

pub fn gen_name(r: &mut Rng, odd: bool) -> String {
    if odd && r.chance(1, 4) {
        r.pick(ODD_NAMES).to_string()
    } else {
        gen_ident(r)
    }
}

pub fn boundary_u64(r: &mut Rng) -> u64 {
    match r.below(9) {
        8 => {
            // neighbours of a rounding tie: for a 53+s bit integer the halfway points between two doubles are
            // the odd multiples of 2^(s-1); the integers just beside them must round to different doubles
            let s = 1 + r.below(11) as u32;              // integers of 54 .. 64 bits
            let top = (1u64 << 52) | (r.next() >> 12);    // 53 significant bits
            let base = top << s;
            let half = 1u64 << (s - 1);
            let n = base.wrapping_add(half);
            match r.below(3) { 0 => n, 1 => n.wrapping_sub(1), _ => n.wrapping_add(1) }
        }
        0 => {
            let k = r.below(64);
            let b = 1u64 << k;
            match r.below(3) {
                0 => b,
                1 => b.wrapping_sub(1),
                _ => b.wrapping_add(1),
            }
        }
        1 => {
            let k = r.below(20) as u32;
            let b = 10u64.pow(k);
            match r.below(3) {
                0 => b,
                1 => b - 1,
                _ => b + 1,
            }
        }
        2 => *r.pick(&[0, 1, 9, 10, 255, 256, u64::MAX, u64::MAX - 1, i64::MAX as u64, i64::MAX as u64 + 1, u32::MAX as u64, u32::MAX as u64 + 1, 127, 128, 65535, 65536]),
        3 => r.below(1000) as u64,
        _ => r.next() >> r.below(64),
    }
}

pub fn boundary_i64(r: &mut Rng) -> i64 {
    match r.below(6) {
        0 => *r.pick(&[i64::MIN, i64::MIN + 1, -1, 0, 1, i64::MAX, -128, -129, 127, 128, -32768, -32769, i32::MIN as i64, i32::MIN as i64 - 1, i32::MAX as i64 + 1]),
        1 => -((boundary_u64(r) >> 1) as i64),
        2 => (boundary_u64(r) >> 1) as i64,
        _ => (r.next() as i64) >> r.below(64),
    }
}

pub fn gen_f64(r: &mut Rng) -> f64 {
    match r.below(14) {
        0 => f64::from_bits(r.next()),
        1 => {
            let k = r.below(2098) as i32 - 1074;
            2f64.powi(k)
        }
        2 => {
            let k = r.below(633) as i32 - 324;
            format!("1e{}", k).parse().unwrap()
        }
        3 => *r.pick(&[0.0, -0.0, 1.0, -1.0, 0.1, 0.5, 1.5, 1e15, 1e16, 1e17, 1e21, 1e22, 1e23, 1e-5, 1e-7, 5e-324, 2.2250738585072014e-308, 2.225073858507201e-308, 1.7976931348623157e308, 9007199254740992.0, 9007199254740993.0, 123456789012345680.0, 0.3, 1e300, 1e-300, 4.35, 0.000001, 1e7, 12345678.9]),
        4 => (r.below(100000) as f64) / (10f64.powi(r.below(6) as i32)),
        5 => {
            // up to 15 significant digits, small exponent: the bit-exact region
            let m = r.next() % 1_000_000_000_000_000;
            let e = r.below(45) as i32 - 22;
            format!("{}e{}", m, e).parse().unwrap()
        }
        6 => {
            let m = r.next() % 100_000_000_000_000_000;
            let e = r.below(600) as i32 - 300;
            format!("{}e{}", m, e).parse().unwrap()
        }
        7 => f64::from_bits(r.next() & 0x000F_FFFF_FFFF_FFFF), // subnormal
        8 => (r.next() >> r.below(64)) as f64,
        9 => -((r.next() >> r.below(64)) as f64),
        10 => *r.pick(&[f64::INFINITY, f64::NEG_INFINITY, f64::NAN]),
        11 => f64::from(f32::from_bits(r.next() as u32)),
        _ => {
            let f = f64::from_bits(r.next());
            if f.is_finite() { f } else { 1.25 }
        }
    }
}

#[derive(Clone, Copy)]
pub struct VCfg {
    pub depth: usize,
    pub maxlen: usize,
    pub strlen: usize,
    pub odd_names: bool,
    pub nonfinite: bool,
}

pub const VCFG_PLAIN: VCfg = VCfg { depth: 4, maxlen: 6, strlen: 12, odd_names: false, nonfinite: false };
pub const VCFG_ANY: VCfg = VCfg { depth: 4, maxlen: 6, strlen: 12, odd_names: true, nonfinite: true };

pub fn gen_atom(r: &mut Rng, c: &VCfg) -> Value {
    match r.below(14) {
        0 => Value::Nil,
        1 => Value::Null,
        2 => Value::Bool(r.chance(1, 2)),
        3 => Value::from(boundary_u64(r)),
        4 => Value::from(boundary_i64(r)),
        5 | 6 => {
            let f = gen_f64(r);
            if !c.nonfinite && !f.is_finite() { Value::from(2.5) } else { Value::from(f) }
        }
        7 => Value::Char(gen_char(r)),
        8 | 9 => Value::string(gen_string(r, c.strlen)),
        10 | 11 => Value::symbol(gen_name(r, c.odd_names)),
        12 => Value::keyword(gen_name(r, c.odd_names)),
        _ => {
            // occasionally long: printers may batch or buffer the element text (16, 32, 64, 128 ... byte boundaries)
            let n = if r.chance(1, 4) { 0 } else if r.chance(1, 8) { *r.pick(&[15usize, 16, 17, 21, 22, 31, 32, 33, 63, 64, 65, 100, 127, 128, 129, 257]) + r.below(3) } else { r.below(c.maxlen + 1) };
            Value::bytes((0..n).map(|_| match r.below(4) { 0 => 0, 1 => 255, _ => r.below(256) as u8 }).collect::<Vec<u8>>())
        }
    }
}

pub fn gen_value(r: &mut Rng, c: &VCfg, depth: usize) -> Value {
    if depth == 0 || r.chance(2, 5) {
        return gen_atom(r, c);
    }
    match r.below(5) {
        4 => {
            // a two-element list headed by one of the four shorthand symbols
            let head = *r.pick(&["quote", "quasiquote", "unquote", "unquote-splicing"]);
            Value::list(vec![Value::symbol(head), gen_value(r, c, depth - 1)])
        }
        0 => {
            // vector
            let n = if r.chance(1, 5) { 0 } else { r.below(c.maxlen + 1) };
            Value::Vector((0..n).map(|_| gen_value(r, c, depth - 1)).collect::<Vec<_>>().into())
        }
        1 => {
            // dotted list
            let n = 1 + r.below(c.maxlen);
            let xs: Vec<Value> = (0..n).map(|_| gen_value(r, c, depth - 1)).collect();
            let tail = loop {
                let t = gen_value(r, c, depth - 1);
                if !t.is_null() {
                    break t;
                }
            };
            Value::append(xs, tail)
        }
        _ => {
            let n = if r.chance(1, 6) { 1 } else { r.below(c.maxlen + 1) };
            Value::list((0..n).map(|_| gen_value(r, c, depth - 1)).collect::<Vec<_>>())
        }
    }
}

pub fn gen_popts(r: &mut Rng) -> String {
    match r.below(6) {
        0 => P_DEFAULT.to_string(),
        1 => P_ELISP.to_string(),
        _ => format!("{}{}{}{}{}{}{}", r.below(3), r.below(4), r.below(2), r.below(2), r.below(3), r.below(2), r.below(2)),
    }
}

pub fn all_popts() -> Vec<String> {
    let mut v = Vec::new();
    for k in 0..3 { for n in 0..4 { for b in 0..2 { for ve in 0..2 { for y in 0..3 { for s in 0..2 { for c in 0..2 {
        v.push(format!("{}{}{}{}{}{}{}", k, n, b, ve, y, s, c));
    }}}}}}}
    v
}

pub fn gen_ropts(r: &mut Rng) -> String {
    match r.below(6) {
        0 => R_DEFAULT.to_string(),
        1 => R_ELISP.to_string(),
        _ => format!("{}{}{}{}{}{}{}{}{}{}", r.below(2), r.below(2), r.below(2), r.below(3), r.below(2), r.below(2), r.below(2), r.below(2), r.below(2), r.below(2)),
    }
}

pub fn all_ropts() -> Vec<String> {
    let mut v = Vec::new();
    for a in 0..2 { for b in 0..2 { for c in 0..2 { for n in 0..3 { for t in 0..2 { for br in 0..2 { for s in 0..2 { for ch in 0..2 { for ra in 0..2 { for d in 0..2 {
        v.push(format!("{}{}{}{}{}{}{}{}{}{}", a, b, c, n, t, br, s, ch, ra, d));
    }}}}}}}}}}
    v
}

/// A parser option set that recognises what printer options `p` emit (Appendix A `Compatible`),
/// free fields random; `None` when no compatible set exists.
pub fn compatible_ropts(r: &mut Rng, p: &str) -> Option<String> {
    let d: Vec<u8> = p.bytes().map(|b| b - b'0').collect();
    let (kw, vec, bytes, string, chr) = (d[0], d[3], d[4], d[5], d[6]);
    if bytes == 2 && string == 0 {
        return None;
    }
    let mut k = [r.below(2), r.below(2), r.below(2)];
    k[kw as usize] = 1;
    let br = if vec == 1 { 1 } else { r.below(2) };
    let ch = if chr == 1 { 1 } else { r.below(2) };
    Some(format!("{}{}{}{}{}{}{}{}{}{}", k[0], k[1], k[2], r.below(3), r.below(2), br, string, ch, r.below(2), r.below(2)))
}

pub const TRIVIA: &[&str] = &[" ", "\t", "\r", "\n", "\x0c", ";c\n", "; (\" \r\n", ";\n", "  ", "\r\n", " ;λ\n ", ";a\0b (x\n", ";\x01\x7f\\|#\n"];

pub fn gen_trivia(r: &mut Rng, nonempty: bool) -> String {
    let n = if nonempty { 1 + r.below(2) } else { r.below(3) };
    let mut s = String::new();
    for _ in 0..n {
        s.push_str(*r.pick(TRIVIA));
    }
    s
}

/// Print `v` with printer options `p`, inserting trivia at token boundaries
/// (non-empty where the plain printer writes a space). Atoms come from the real printer.
pub fn print_with_trivia(r: &mut Rng, v: &Value, p: &str, level: usize, out: &mut Vec<u8>) {
    let po = print_opts(p);
    let vec_br = p.as_bytes()[3] == b'1';
    // alternative surface syntax for the same value (level > 0 only; level 0 is the printer's own text):
    // quote shorthands with optional trivia before the datum, string literals with raw control
    // characters and line feeds, byte vectors laid out over several lines, the literal LF character
    if level > 0 {
        match v {
            Value::Cons(c) => {
                let sh = match c.car().as_symbol() { Some("quote") => "'", Some("quasiquote") => "`", Some("unquote") => ",", Some("unquote-splicing") => ",@", _ => "" };
                if !sh.is_empty() && r.chance(2, 3) {
                    if let Value::Cons(c2) = c.cdr() {
                        if c2.cdr().is_null() {
                            out.extend(sh.bytes());
                            let triv = if r.chance(1, 2) { gen_trivia(r, true) } else { String::new() };
                            let mut inner = Vec::new();
                            print_with_trivia(r, c2.car(), p, level, &mut inner);
                            // `,` directly before a datum starting with `@` would be the `,@` shorthand
                            if triv.is_empty() && sh == "," && inner.first() == Some(&b'@') { out.push(b' '); }
                            out.extend(triv.bytes());
                            out.extend(inner);
                            return;
                        }
                    }
                }
            }
            Value::String(st) if r.chance(1, 3) && !st.contains('\u{85}') => {
                out.push(b'"');
                for ch in st.chars() {
                    if ch == '"' || ch == '\\' { out.push(b'\\'); }
                    let mut buf = [0u8; 4];
                    out.extend(ch.encode_utf8(&mut buf).bytes());
                }
                out.push(b'"');
                return;
            }
            Value::Bytes(bs) if r.chance(1, 2) && p.as_bytes()[4] != b'2' => {
                out.extend(if p.as_bytes()[4] == b'0' { &b"#vu8("[..] } else { &b"#u8("[..] });
                out.extend(gen_trivia(r, false).bytes());
                for (i, b) in bs.iter().enumerate() {
                    if i > 0 { out.extend(gen_trivia(r, true).bytes()); }
                    out.extend(b.to_string().bytes());
                }
                out.extend(gen_trivia(r, false).bytes());
                out.push(b')');
                return;
            }
            Value::Char('\n') if p.as_bytes()[6] == b'0' && r.chance(1, 2) => {
                out.extend(b"#\\\n");
                return;
            }
            _ => {}
        }
    }
    match v {
        Value::Cons(c) => {
            out.push(b'(');
            if level > 0 { out.extend(gen_trivia(r, false).bytes()); }
            let mut cur: &Cons = c;
            loop {
                print_with_trivia(r, cur.car(), p, level, out);
                match cur.cdr() {
                    Value::Cons(n) => {
                        if level > 0 { out.extend(gen_trivia(r, true).bytes()); } else { out.push(b' '); }
                        cur = n;
                    }
                    Value::Null => break,
                    t => {
                        if level > 0 {
                            out.extend(gen_trivia(r, true).bytes());
                            out.push(b'.');
                            out.extend(gen_trivia(r, true).bytes());
                        } else {
                            out.extend(b" . ");
                        }
                        print_with_trivia(r, t, p, level, out);
                        break;
                    }
                }
            }
            if level > 0 { out.extend(gen_trivia(r, false).bytes()); }
            out.push(b')');
        }
        Value::Vector(xs) => {
            out.extend(if vec_br { &b"["[..] } else { &b"#("[..] });
            if level > 0 { out.extend(gen_trivia(r, false).bytes()); }
            for (i, x) in xs.iter().enumerate() {
                if i > 0 {
                    if level > 0 { out.extend(gen_trivia(r, true).bytes()); } else { out.push(b' '); }
                }
                print_with_trivia(r, x, p, level, out);
            }
            if level > 0 { out.extend(gen_trivia(r, false).bytes()); }
            out.push(if vec_br { b']' } else { b')' });
        }
        atom => out.extend(lexpr::to_vec_custom(atom, po).unwrap()),
    }
}

pub const TOKENS: &[&str] = &[
    "(", ")", "[", "]", "#(", "#u8(", "#vu8(", "'", "`", ",", ",@", ".", " ", "\n", ";x\n", "\"", "\\", "#\\",
    "#t", "#f", "#nil", "nil", "t", "a", "1", "-", "+", "1.5", "e", "#x", "#:", ":", "a:", "?", "?a", "λ",
    "\"a\"", "#\\a", "#\\space", "#\\x41", "\\x41;", "0", "9", "1e3", "#%", "|", "#", "\x0c", "\t", "\r",
    "#b1", "#o7", "#d9", "#xF", "-1", "+1", ".5", "1.", "1e", "1e+", "\\u0041", "\\N{U+41}", "\\101", "?\\^a",
    "?\\C-a", "#u8", "#v", "#n", "#ni", "(a . b)", " . ", "\0", "\x7f", "{", "}", "\\", "18446744073709551616",
    "\"\\^a\"", "\"\\N{U+41}\"", "\"\\x41\\ \"", "\"\\101\"", "\"\\u00e9\"", "\"\\d\\e\\s\"", "\"\\U0001F600\"", "?\\u00e9", "?\\N{U+3bb}", "?\\x41", "?\\101", "?\\d",
    "\"\\x41;\"", "\"\\a\\b\\f\\v\\|\"", "#\\nul", "#\\delete", "#\\x3bb", "#\\λ", "#:k", ":k", "k:", "#%k", "1e21", "-0.0", "+.x", "-.", "..", ".a", "#d1", "#e1", "1/2",
    "\"λ\"", "'()", "#()", "[]", "#u8()", "#vu8(1 2)", "#u8(256)", "#u8(a)", ". a", "(. a)", "(a .)", "(a . b c)", "((", "))", "#;", "#|", "|a|",
];

pub const RAW_BYTES: &[&[u8]] = &[b"\xce", b"\xbb", b"\xff", b"\xc0\x80", b"\xed\xa0\x80", b"\xf4\x90\x80\x80", b"\xe2\x82", b"\xf0\x9f\x98", b"\x80", b"\xf8"];

pub fn gen_token_soup(r: &mut Rng, n: usize, raw: bool) -> Vec<u8> {
    let mut out = Vec::new();
    for _ in 0..n {
        if raw && r.chance(1, 10) {
            out.extend_from_slice(*r.pick(RAW_BYTES));
        } else {
            out.extend_from_slice(r.pick(TOKENS).as_bytes());
        }
    }
    out
}

pub fn mutate(r: &mut Rng, text: &[u8], other: &[u8], raw: bool) -> Vec<u8> {
    let mut t = text.to_vec();
    let n = t.len();
    match r.below(8) {
        0 => { t.truncate(r.below(n + 1)); }
        1 => { if n > 0 { t.remove(r.below(n)); } }
        2 => {
            if n > 0 {
                let i = r.below(n);
                t[i] = if raw { r.below(256) as u8 } else { 32 + r.below(95) as u8 };
            }
        }
        3 => {
            if n > 0 {
                let i = r.below(n);
                let j = i + r.below(n - i + 1);
                let seg: Vec<u8> = t[i..j].to_vec();
                let at = r.below(n + 1);
                for (k, b) in seg.into_iter().enumerate() { t.insert(at + k, b); }
            }
        }
        4 => {
            let i = r.below(n + 1);
            let j = r.below(other.len() + 1);
            t.truncate(i);
            t.extend_from_slice(&other[j..]);
        }
        5 => {
            let at = r.below(n + 1);
            let tok = r.pick(TOKENS).as_bytes();
            for (k, b) in tok.iter().enumerate() { t.insert(at + k, *b); }
        }
        6 => {
            if raw {
                let at = r.below(n + 1);
                let tok = *r.pick(RAW_BYTES);
                for (k, b) in tok.iter().enumerate() { t.insert(at + k, *b); }
            } else if n > 0 {
                let i = r.below(n);
                t.swap(i, r.below(n));
            }
        }
        _ => {
            if n > 1 {
                let i = r.below(n - 1);
                t.swap(i, i + 1);
            }
        }
    }
    t
}

pub fn float_table(v: &Value, out: &mut Vec<String>) {
    let mut toks = Vec::new();
    enc_value_into(v, true, &mut toks);
    for t in toks { if t.starts_with('D') && t.contains('/') { out.push(t); } }
}

pub fn fast_flag() -> &'static str {
    if cfg!(feature = "full") { "1" } else { "0" }
}

fn parse_op(src: &str, ropts: &str, api: &str, data: &[u8]) -> String {
    format!("parse {} {} {} {} {}", fast_flag(), src, ropts, api, hex(data))
}

const APIS: &[&str] = &["v1", "d1", "r:v:40", "r:d:40", "r:i:40", "r:j:40", "r:p:40"];

pub fn gen_history(r: &mut Rng) -> String {
    let n = 2 + r.below(8);
    let ops = b"vdVDeijp";
    let mut s = String::from("h:");
    for _ in 0..n {
        s.push(*r.pick(ops) as char);
    }
    s
}

/// All the source variants for one input (str only when valid UTF-8).
pub fn sources(r: &mut Rng, data: &[u8], faults: bool) -> Vec<String> {
    let mut v = vec!["b".to_string()];
    if std::str::from_utf8(data).is_ok() {
        v.push("s".to_string());
    }
    v.push(match r.below(6) {
        0 => "i0".to_string(),
        1 => "i1".to_string(),
        2 => format!("i{}", 2 + r.below(5)),
        3 => format!("j{}", 1 + r.below(3)),
        4 => format!("I{}", 1 + r.below(5)),
        _ => format!("J{}", 1 + r.below(5)),
    });
    if faults {
        let k = r.below(data.len() + 1);
        v.push(format!("{}{}", if r.chance(1, 2) { "x" } else { "X" }, k));
    }
    v
}

pub fn random_text(r: &mut Rng) -> (Vec<u8>, String) {
    // returns text and the parser options it is meant for
    let p = gen_popts(r);
    let ro = compatible_ropts(r, &p).unwrap_or_else(|| gen_ropts(r));
    let cfg = if r.chance(1, 3) { VCFG_ANY } else { VCFG_PLAIN };
    let mut out = Vec::new();
    let n = 1 + if r.chance(1, 3) { r.below(4) } else { 0 };
    if r.chance(1, 3) { out.extend(gen_trivia(r, false).bytes()); }
    for i in 0..n {
        if i > 0 { out.extend(gen_trivia(r, true).bytes()); }
        let v = gen_value(r, &cfg, 3);
        let lvl = r.below(2);
        print_with_trivia(r, &v, &p, lvl, &mut out);
    }
    if r.chance(1, 3) { out.extend(gen_trivia(r, false).bytes()); }
    if r.chance(1, 10) { out.extend(b";last"); }
    (out, ro)
}

pub fn generate(family: &str, seed: u64, count: usize, emit: &mut dyn FnMut(String)) {
    let mut r = Rng::new(seed ^ (family.bytes().fold(0u64, |a, b| a.wrapping_mul(131).wrapping_add(b as u64))));
    match family {
        // value-level accessors: list / acc / cmp / from
        "values" => {
            for _ in 0..count {
                let v = gen_value(&mut r, &VCFG_ANY, 3);
                let key = match r.below(3) {
                    0 => gen_atom(&mut r, &VCFG_ANY),
                    _ => match &v {
                        Value::Cons(c) => {
                            // pick a key that occurs
                            let cells: Vec<&Cons> = c.iter().collect();
                            let cell = *r.pick(&cells);
                            match cell.car() { Value::Cons(inner) => inner.car().clone(), other => other.clone() }
                        }
                        other => other.clone(),
                    },
                };
                let name = match key.as_name() { Some(n) if r.chance(2, 3) => hex(n.as_bytes()), _ => hex(gen_name(&mut r, true).as_bytes()) };
                let name = if name.is_empty() { "-".to_string() } else { name };
                let idx = match r.below(6) { 0 => usize::MAX, 1 => 1000, _ => r.below(8) };
                emit(format!("list {} {} {} ;; {}", idx, name, enc_value_text(&v), enc_value_text(&key)));
                emit(format!("acc {}", enc_value_text(&v)));
                emit(format!("cmp {} {}", gen_prim(&mut r, Some(&v)), enc_value_text(&v)));
            }
        }
        "alist" => {
            for _ in 0..count {
                let n = r.below(7);
                let mut keys: Vec<Value> = (0..3).map(|_| match r.below(4) { 0 => Value::symbol(gen_name(&mut r, true)), 1 => Value::string(gen_name(&mut r, true)), 2 => Value::keyword(gen_name(&mut r, true)), _ => gen_atom(&mut r, &VCFG_ANY) }).collect();
                // the same spelling as a string, a symbol and a keyword; equal numbers of different kinds
                if r.chance(1, 2) {
                    let nm = gen_name(&mut r, false);
                    keys = vec![Value::symbol(nm.clone()), Value::string(nm.clone()), Value::keyword(nm)];
                } else if r.chance(1, 4) {
                    keys = vec![Value::from(1), Value::from(1.0), Value::string("1"), Value::Char('1')];
                } else if r.chance(1, 4) {
                    // distinct integer keys that are the same double (64-bit identifiers with the top bits set), and the
                    // float they round to; -0.0 / 0.0 / 0
                    let base = (r.next() | (1u64 << 63)) & !0xfff;
                    keys = match r.below(3) {
                        0 => vec![Value::from(base + 37), Value::from(base + 38), Value::from(base + 39), Value::from((base + 38) as f64)],
                        1 => vec![Value::from(i64::MAX), Value::from(1u64 << 63), Value::from((1u64 << 63) + 1), Value::from(9223372036854775808.0f64)],
                        _ => vec![Value::from(0), Value::from(0.0), Value::from(-0.0), Value::from(-1)],
                    };
                }
                let mut xs = Vec::new();
                for _ in 0..n {
                    xs.push(match r.below(5) {
                        0 => gen_atom(&mut r, &VCFG_ANY),
                        _ => Value::cons(r.pick(&keys).clone(), gen_value(&mut r, &VCFG_ANY, 1)),
                    });
                }
                let tail = if r.chance(1, 4) { gen_atom(&mut r, &VCFG_ANY) } else { Value::Null };
                let v = Value::append(xs, tail);
                let key = r.pick(&keys).clone();
                let name = match key.as_name() { Some(n) if !n.is_empty() => hex(n.as_bytes()), _ => "61".to_string() };
                emit(format!("list {} {} {} ;; {}", r.below(8), name, enc_value_text(&v), enc_value_text(&key)));
            }
        }
        "prims" => {
            // every integer at a width boundary against its reinterpretation in every other integer type
            let mut ints: Vec<i128> = Vec::new();
            for k in [7u32, 8, 15, 16, 31, 32, 63, 64] { for d in [-2i128, -1, 0, 1, 41] { ints.push((1i128 << k) + d); ints.push(-(1i128 << k) + d); } }
            ints.extend_from_slice(&[0, 1, -1, 42, -42, u64::MAX as i128, u64::MAX as i128 - 41, i64::MIN as i128, i64::MAX as i128]);
            for n in ints {
                let v = if n >= 0 && n <= u64::MAX as i128 { Value::from(n as u64) } else if n >= i64::MIN as i128 && n < 0 { Value::from(n as i64) } else { continue };
                let e = enc_value_text(&v);
                for p in [format!("i64:{}", n as i64), format!("i32:{}", n as i32), format!("i16:{}", n as i16), format!("i8:{}", n as i8),
                          format!("u64:{}", n as u64), format!("u32:{}", n as u32), format!("u16:{}", n as u16), format!("u8:{}", n as u8),
                          format!("f64:{:016x}", (n as f64).to_bits()), format!("f32:{:08x}", (n as f32).to_bits())] {
                    emit(format!("cmp {} {}", p, e));
                }
            }
            // integers beside a rounding tie of the integer -> double conversion, in every bit length from 54 to 64
            // and on the negative side: as_f64 must be the nearest double, and comparing with it must say equal
            for s in 1..=11u32 {
                for j in 0..24 {
                    let top = (1u64 << 52) | (r.next() >> 12) & !1 | (j & 1);
                    let n0 = (top << s).wrapping_add(1u64 << (s - 1));
                    for n in [n0.wrapping_sub(1), n0, n0.wrapping_add(1)] {
                        let mut vals = vec![Value::from(n)];
                        if n <= i64::MAX as u64 { vals.push(Value::from(-(n as i64))); }
                        for v in vals {
                            let e = enc_value_text(&v);
                            emit(format!("acc {}", e));
                            let f = if v.as_u64().is_some() { n as f64 } else { -(n as i64) as f64 };
                            emit(format!("cmp f64:{:016x} {}", f.to_bits(), e));
                        }
                    }
                }
            }
            for _ in 0..count {
                let p = gen_prim(&mut r, None);
                emit(format!("from {}", p));
                let v = if r.chance(1, 2) { dec_value(&mut crate::ops::exec(&format!("from {}", p)).split_whitespace()) } else { gen_atom(&mut r, &VCFG_ANY) };
                emit(format!("cmp {} {}", p, enc_value_text(&v)));
                let p2 = gen_prim(&mut r, Some(&v));
                emit(format!("cmp {} {}", p2, enc_value_text(&v)));
                emit(format!("acc {}", enc_value_text(&v)));
            }
        }
        "print" => {
            for i in 0..count {
                let v = gen_value(&mut r, &VCFG_ANY, 3);
                let p = if i % 4 == 0 { "D".to_string() } else { gen_popts(&mut r) };
                emit(format!("print {} {}", p, enc_value_text(&v)));
                if i % 4 == 0 {
                    emit(format!("print {} {}", P_DEFAULT, enc_value_text(&v)));
                }
            }
        }
        "printall" => {
            // every printer option set on a value basis
            let basis = value_basis();
            for p in all_popts() {
                for v in &basis {
                    emit(format!("print {} {}", p, enc_value_text(v)));
                }
            }
        }
        "sink" => {
            for _ in 0..count {
                let v = gen_value(&mut r, &VCFG_ANY, 3);
                let p = if r.chance(1, 4) { "D".to_string() } else { gen_popts(&mut r) };
                let len = lexpr::to_vec(&v).map(|b| b.len()).unwrap_or(10);
                let sched = gen_sched(&mut r, len);
                emit(format!("sink {} {} {}", p, sched, enc_value_text(&v)));
            }
        }
        "rt01" => {
            for _ in 0..count {
                let cfg = if r.chance(1, 5) { VCFG_ANY } else { VCFG_PLAIN };
                let v = gen_value(&mut r, &cfg, 4);
                emit(format!("rt {} {} {} {}", P_DEFAULT, R_DEFAULT, fast_flag(), enc_value_text(&v)));
            }
        }
        "rt02" => {
            for i in 0..count {
                let cfg = if r.chance(1, 5) { VCFG_ANY } else { VCFG_PLAIN };
                let v = gen_value(&mut r, &cfg, 3);
                let (p, ro) = if i % 3 == 0 { (P_ELISP.to_string(), R_ELISP.to_string()) } else {
                    loop {
                        let p = gen_popts(&mut r);
                        if let Some(ro) = compatible_ropts(&mut r, &p) { break (p, ro); }
                    }
                };
                emit(format!("rt {} {} {} {}", p, ro, fast_flag(), enc_value_text(&v)));
            }
        }
        "sens" => {
            // which options does the reading of a text depend on?  token corpus in every position under a sample of
            // option sets, then random and malformed texts under random option sets
            let ros = all_ropts();
            for (ti, tok) in TOKEN_CORPUS.iter().enumerate() {
                for (pi, pos) in POSITIONS.iter().enumerate() {
                    let text = pos.replace("@", tok);
                    for k in 0..3 {
                        let ro = &ros[(ti * 131 + pi * 17 + k * 389 + r.0 as usize % 1536) % ros.len()];
                        emit(format!("sens {} {} {}", fast_flag(), ro, hex(text.as_bytes())));
                    }
                }
            }
            for _ in 0..count {
                let (text, ro) = match r.below(3) {
                    0 => { let n = 1 + r.below(8); (gen_token_soup(&mut r, n, false), gen_ropts(&mut r)) }
                    _ => random_text(&mut r),
                };
                if text.len() > 200 { continue; }
                emit(format!("sens {} {} {}", fast_flag(), ro, hex(&text)));
            }
        }
        "specrd" => {
            // texts the REAL printer writes for plain values, to be read by the independent reader of the documented
            // grammar (LexprModel/Spec): default options -> Scheme reader, Emacs Lisp options -> Emacs Lisp reader
            let mut vals: Vec<Value> = value_basis();
            for _ in 0..count { vals.push(gen_value(&mut r, &VCFG_PLAIN, 3)); }
            for v in vals {
                for (tag, p, ro) in [("S", P_DEFAULT, R_DEFAULT), ("E", P_ELISP, R_ELISP)] {
                    if !crate::oracle::plain_for(p, ro, &v) || crate::oracle::has_reserved_numeric_name(&v) { continue; }
                    if let Ok(text) = lexpr::to_vec_custom(&v, print_opts(p)) {
                        emit(format!("specrd {} {} ;; {}", tag, hex(&text), enc_value_text(&v)));
                    }
                }
            }
        }
        "rtall" => {
            let basis = value_basis();
            for p in all_popts() {
                for _ in 0..count.max(1) {
                    if let Some(ro) = compatible_ropts(&mut r, &p) {
                        for v in &basis {
                            emit(format!("rt {} {} {} {}", p, ro, fast_flag(), enc_value_text(v)));
                        }
                    }
                }
            }
        }
        "text" => {
            for _ in 0..count {
                let (text, ro) = random_text(&mut r);
                let api = if r.chance(1, 4) { gen_history(&mut r) } else { r.pick(APIS).to_string() };
                for src in sources(&mut r, &text, true) {
                    emit(parse_op(&src, &ro, &api, &text));
                }
            }
        }
        "trivia" => {
            // the same values printed plainly and with trivia at every token boundary
            for i in 0..count {
                if i % 4 == 3 {
                    // token level: spellings the printer never emits (long literals, radix prefixes, character names,
                    // escapes), separated by one space in one text and by arbitrary trivia in the other
                    let n = 1 + r.below(4);
                    let toks: Vec<String> = (0..n).map(|_| match r.below(8) {
                        0 | 1 => gen_num_literal(&mut r),
                        2 => { let k = 20 + r.below(12); format!("{}.{}", r.below(10), digits(&mut r, 10, k)) }
                        3 => { let k = 10 + r.below(8); format!("{}e-{}", 1 + r.below(9), digits(&mut r, 10, k)) }
                        4 => r.pick(&["#\\space", "#\\x41", "#\\a", "#t", "#false", "#nil", "\"a\\x41;b\"", "\"\"", "#u8(1 2)", "#()", "()"]).to_string(),
                        5 => gen_ident(&mut r),
                        6 => r.pick(&["'a", "`(a ,b)", ",@x", "(a . b)", "#(1 #(2))", "..."]).to_string(),
                        _ => { let k = 1 + r.below(18); format!("#x{}", digits(&mut r, 16, k)) }
                    }).collect();
                    let wrap = r.below(3);
                    let (open, close) = match wrap { 0 => ("", ""), 1 => ("(", ")"), _ => ("#(", ")") };
                    let a = format!("{}{}{}", open, toks.join(" "), close);
                    let mut b = String::new();
                    if r.chance(1, 2) { b.push_str(&gen_trivia(&mut r, false)); }
                    b.push_str(open);
                    for (j, t) in toks.iter().enumerate() {
                        if j > 0 { b.push_str(&gen_trivia(&mut r, true)); } else if r.chance(1, 2) { b.push_str(&gen_trivia(&mut r, false)); }
                        b.push_str(t);
                    }
                    if r.chance(1, 2) { b.push_str(&gen_trivia(&mut r, false)); }
                    b.push_str(close);
                    if r.chance(1, 2) { b.push_str(&gen_trivia(&mut r, false)); }
                    emit(format!("triv {} {} {} {}", fast_flag(), R_DEFAULT, hex(a.as_bytes()), hex(b.as_bytes())));
                    continue;
                }
                let (p, ro) = loop {
                    let p = gen_popts(&mut r);
                    if let Some(ro) = compatible_ropts(&mut r, &p) { break (p, ro); }
                };
                let n = 1 + r.below(3);
                // only values whose names are plain identifiers of that dialect (Appendix A `PlainFor`)
                let vals: Vec<Value> = (0..n).map(|_| loop {
                    let v = gen_value(&mut r, &VCFG_PLAIN, 3);
                    if crate::oracle::plain_for(&p, &ro, &v) { break v; }
                }).collect();
                let mut a = Vec::new();
                let mut b = Vec::new();
                for (i, v) in vals.iter().enumerate() {
                    if i > 0 { a.push(b' '); b.extend(gen_trivia(&mut r, true).bytes()); } else if r.chance(1, 2) { b.extend(gen_trivia(&mut r, false).bytes()); }
                    print_with_trivia(&mut r, v, &p, 0, &mut a);
                    print_with_trivia(&mut r, v, &p, 1, &mut b);
                }
                match r.below(3) { 0 => b.extend(gen_trivia(&mut r, false).bytes()), 1 => b.extend(b" ;end"), _ => {} }
                emit(format!("triv {} {} {} {}", fast_flag(), ro, hex(&a), hex(&b)));
            }
        }
        "malformed" => {
            // a literal NUL byte where the readers look one byte ahead (`peek_or_null` answers 0 at the end of the
            // input AND for a NUL byte): after the dot of a list, after a sign, inside and after tokens — through the
            // value and the datum API, every source
            for text in [&b"first (a .\0 b) last"[..], b"(a .\0)", b"(.\0 b)", b"(a . \0 b)", b"#(a .\0 b)", b"[a .\0 b] c", b"(a .\0 . b)", b"((x .\0 y)) z",
                         b"\0", b"a\0b c", b"(\0) d", b"+\0 e", b"-\0", b"1\0 2", b"1.\0 2", b"1e\0 2", b"#\0 f", b"#t\0 g", b"\"\0\" h", b"#\\\0 i", b"'\0 j", b",@\0 k", b"(a b .\0", b"#u8(1\0 2)"] {
                for ro in [R_DEFAULT, R_ELISP, "1110011111", "0101100010"] {
                    for api in ["r:v:6", "r:d:6", "r:i:6", "r:j:6", "h:dvdvdv", "h:vdvdvd", "v1", "d1"] {
                        for src in ["b", "i1", "s"] { emit(parse_op(src, ro, api, text)); }
                    }
                }
            }
            let mut prev: Vec<u8> = b"(a b)".to_vec();
            for _ in 0..count {
                let raw = r.chance(1, 2);
                let text = match r.below(3) {
                    0 => { let n = 1 + r.below(12); gen_token_soup(&mut r, n, raw) }
                    _ => {
                        let (t, _) = random_text(&mut r);
                        let mut m = mutate(&mut r, &t, &prev, raw);
                        if r.chance(1, 3) { m = mutate(&mut r, &m, &prev, raw); }
                        prev = t;
                        m
                    }
                };
                let ro = gen_ropts(&mut r);
                let api = if r.chance(1, 3) { gen_history(&mut r) } else { r.pick(APIS).to_string() };
                let fl = r.0 % 3 == 0;
                for src in sources(&mut r, &text, fl) {
                    emit(parse_op(&src, &ro, &api, &text));
                }
            }
        }
        "short" => {
            // all byte strings of length <= 2 over an interesting alphabet, all option sets for len<=1
            let alpha: Vec<u8> = interesting_bytes();
            let ros = all_ropts();
            emit(parse_op("b", R_DEFAULT, "r:v:8", b""));
            for a in 0..=255u8 {
                for ro in [R_DEFAULT, R_ELISP, "1111010011", "0101101110"] {
                    emit(parse_op("b", ro, "r:v:8", &[a]));
                    emit(parse_op("i1", ro, "r:d:8", &[a]));
                }
            }
            for &a in &alpha {
                for &b in &alpha {
                    let ro = &ros[r.below(ros.len())];
                    emit(parse_op("b", ro, "r:v:8", &[a, b]));
                    emit(parse_op("i0", ro, "r:d:8", &[a, b]));
                    if count > 1 {
                        for &c in &alpha {
                            if r.chance(1, 6) {
                                let ro = &ros[r.below(ros.len())];
                                emit(parse_op("b", ro, "r:v:8", &[a, b, c]));
                            }
                        }
                    }
                }
            }
        }
        "faults" => {
            for _ in 0..count {
                let (text, ro) = random_text(&mut r);
                let text = if text.len() > 40 { text[..40].to_vec() } else { text };
                // numeric literals long enough that the scanner only skips their last digits: a read error
                // there must surface like anywhere else
                let text = if r.chance(1, 5) {
                    let (n1, n2, n3) = (26 + r.below(8), 12 + r.below(8), 20 + r.below(6));
                    let lit = match r.below(6) {
                        0 => format!("0.{}", digits(&mut r, 10, n1)),
                        1 => format!("{}.{}", digits(&mut r, 10, 22), digits(&mut r, 10, 6)),
                        2 => format!("{}", digits(&mut r, 10, n1)),
                        3 => format!("1e-{}", digits(&mut r, 10, n2)),
                        4 => format!("0e{}", digits(&mut r, 10, n2)),
                        _ => format!("#x{}", digits(&mut r, 16, n3)),
                    };
                    match r.below(3) { 0 => lit.into_bytes(), 1 => format!("({} a)", lit).into_bytes(), _ => format!("{} b", lit).into_bytes() }
                } else { text };
                let api = *r.pick(&["v1", "d1", "r:v:20", "r:i:20"]);
                emit(parse_op("b", &ro, api, &text));
                for k in 0..=text.len() {
                    emit(parse_op(&format!("x{}", k), &ro, api, &text));
                }
                // a reader that keeps failing with WouldBlock / TimedOut (a parser must not retry for ever), and a
                // reader that fails once and then delivers the rest, with the caller retrying on the same parser
                let hist = *r.pick(&["h:dddddd", "h:vvvvvv", "h:dvdvdv", "h:jjjjjj", "h:DdDdDd", "h:ddeddd"]);
                for k in 0..=text.len() {
                    if (k + text.len()) % 2 == 0 { emit(parse_op(&format!("w{}", k), &ro, api, &text)); }
                    emit(parse_op(&format!("y{}", k), &ro, hist, &text));
                }
            }
        }
        "prefix" => {
            // a literal whose integer part alone exceeds the range of a double but which a negative exponent or a
            // fraction brings back: the digits-only prefix is a complete, out-of-range literal (known finding C19)
            // every text of the corpus under the option set it is written for (Emacs Lisp ones start with `?`, `[`, `:` or
            // contain an Emacs escape) and under the other one where it parses too
            for text in PREFIX_TEXTS {
                for ro in [R_DEFAULT, R_ELISP] {
                    if lexpr::from_slice_custom(text.as_bytes(), parse_opts(ro)).is_err() { continue; }
                    for k in 0..=text.len() { emit(format!("prefix {} {} {} {}", ro, k, fast_flag(), hex(text.as_bytes()))); }
                }
            }
            let long = format!("2{}e-1", "0".repeat(308));
            for k in [305usize, 309, 310, 311] {
                emit(format!("prefix {} {} {} {}", R_DEFAULT, k, fast_flag(), hex(long.as_bytes())));
            }
            for _ in 0..count {
                let elisp = r.chance(1, 3);
                let (p, ro) = if elisp { (P_ELISP, R_ELISP) } else { (P_DEFAULT, R_DEFAULT) };
                let text: Vec<u8> = if r.chance(1, 3) {
                    r.pick(PREFIX_TEXTS).as_bytes().to_vec()
                } else {
                    let v = gen_value(&mut r, &VCFG_PLAIN, 2);
                    let mut out = Vec::new();
                    print_with_trivia(&mut r, &v, p, 0, &mut out);
                    out
                };
                let text = if text.len() > 60 { continue } else { text };
                for k in 0..=text.len() {
                    emit(format!("prefix {} {} {} {}", ro, k, fast_flag(), hex(&text)));
                }
            }
        }
        "opts" => {
            // chains of builder calls on parse::Options / print::Options: every chain of length <= 2 from every
            // starting point, then random longer chains
            let rset: Vec<String> = {
                let mut v: Vec<String> = vec!["k0", "k1", "k2", "n0", "n1", "n2", "t0", "t1", "b0", "b1", "s0", "s1", "c0", "c1", "r0", "r1", "d0", "d1"].into_iter().map(String::from).collect();
                for m in 0..8u8 { let mut k = String::from("K"); for b in 0..3 { if m & (1 << b) != 0 { k.push((b'0' + b) as char); } } v.push(k); }
                v.push("K10".into()); v.push("K22".into()); v.push("K210".into());
                v
            };
            let pset: Vec<&str> = vec!["k0", "k1", "k2", "n0", "n1", "n2", "n3", "o0", "o1", "v0", "v1", "y0", "y1", "y2", "s0", "s1", "c0", "c1"];
            for st in ["new", "default", "elisp"] {
                emit(format!("opts R {}", st));
                for a in rset.iter() {
                    emit(format!("opts R {} {}", st, a));
                    for b in rset.iter() { emit(format!("opts R {} {} {}", st, a, b)); }
                }
            }
            for st in ["default", "elisp"] {
                emit(format!("opts P {}", st));
                for a in pset.iter() {
                    emit(format!("opts P {} {}", st, a));
                    for b in pset.iter() { emit(format!("opts P {} {} {}", st, a, b)); }
                }
            }
            for _ in 0..(600 * count) {
                let n = 3 + r.below(6);
                if r.chance(2, 3) {
                    let ops: Vec<String> = (0..n).map(|_| r.pick(&rset).clone()).collect();
                    emit(format!("opts R {} {}", r.pick(&["new", "default", "elisp"]), ops.join(" ")));
                } else {
                    let ops: Vec<&str> = (0..n).map(|_| *r.pick(&pset)).collect();
                    emit(format!("opts P {} {}", r.pick(&["default", "elisp"]), ops.join(" ")));
                }
            }
        }
        "tok" => {
            // token corpus x positions x all parser option sets
            let ros = all_ropts();
            for tok in TOKEN_CORPUS {
                for (pi, pos) in POSITIONS.iter().enumerate() {
                    let text = pos.replace("@", tok);
                    for (ri, ro) in ros.iter().enumerate() {
                        if count >= 2 || (ri + pi) % 7 == (r.0 % 7) as usize {
                            emit(parse_op("b", ro, "r:v:6", text.as_bytes()));
                        }
                        // the datum reader has its own copy of the token dispatch
                        if (ri + 3 * pi) % 24 == 0 {
                            emit(parse_op("b", ro, "r:d:6", text.as_bytes()));
                        }
                    }
                }
            }
        }
        "num" => {
            for _ in 0..count {
                let lit = gen_num_literal(&mut r);
                emit(parse_op("b", R_DEFAULT, "v1", lit.as_bytes()));
                if r.chance(1, 3) { let ro = if r.chance(1, 2) { R_ELISP.to_string() } else { gen_ropts(&mut r) }; emit(parse_op("b", &ro, "v1", lit.as_bytes())); }
                // the same literal where what follows it matters, from the other sources too
                if r.chance(1, 3) {
                    let ctx = *r.pick(&["(@)", "(@ x)", "#(@ 1)", "(a . @)", "@ y", "(@;c\n)", "[@]", "'@", "(@\"s\")", "(\n @)", "\n\n@", "(a\n\n  @ b)", ";c\n@", "(\"x\ny\"\n@)"]);
                    let text = ctx.replace("@", &lit);
                    let src = *r.pick(&["b", "s", "i1", "I3", "i0"]);
                    let ro = if r.chance(1, 3) { gen_ropts(&mut r) } else { R_DEFAULT.to_string() };
                    emit(parse_op(src, &ro, "r:v:4", text.as_bytes()));
                }
            }
        }
        "pp" => {
            for _ in 0..count {
                let (text, ro) = match r.below(5) {
                    0 => (r.pick(PP_TEXTS).as_bytes().to_vec(), if r.chance(1, 2) { R_DEFAULT.to_string() } else { gen_ropts(&mut r) }),
                    4 => {
                        // numeric spellings the printer never emits, including literals beyond f64::MAX
                        let lit = match r.below(4) {
                            0 => { let n = 240 + r.below(80); format!("#x{}{}", r.pick(&["", "-"]), digits(&mut r, 16, n)) }
                            1 => { let n = 330 + r.below(40); format!("#o{}", digits(&mut r, 8, n)) }
                            2 => { let n = 1000 + r.below(60); format!("#b1{}", digits(&mut r, 2, n)) }
                            _ => gen_num_literal(&mut r),
                        };
                        let text = if r.chance(1, 2) { lit.into_bytes() } else { format!("({} x)", lit).into_bytes() };
                        (text, if r.chance(1, 2) { R_DEFAULT.to_string() } else { gen_ropts(&mut r) })
                    }
                    1 => { let n = 1 + r.below(6); (gen_token_soup(&mut r, n, false), gen_ropts(&mut r)) }
                    _ => random_text(&mut r),
                };
                emit(pp_op(&text, &ro));
                // a parser reading Emacs Lisp strings also corresponds to a printer writing byte vectors as unibyte strings
                if ro.as_bytes()[6] == b'1' && r.chance(1, 2) { emit(pp_op(&text, &ro).replacen("pp ", "ppe ", 1)); }
            }
        }
        "ppfix" => {
            // deterministic part of the parse-print-parse check: every byte in every escape position,
            // nesting made of shorthands around the recursion limit, spellings the printer never emits
            for b in 0..=255u8 {
                for (pre, post) in ESC_SHAPES {
                    let mut t = pre.to_vec(); t.push(b); t.extend_from_slice(post);
                    for ro in [R_DEFAULT, R_ELISP] {
                        if lexpr::from_slice_custom(&t, parse_opts(ro)).is_ok() { emit(pp_op(&t, ro)); }
                    }
                }
            }
            for n in 118..=130usize {
                for sh in ["'", "`", ",", ",@"] {
                    emit(pp_op(format!("{}x", sh.repeat(n)).as_bytes(), R_DEFAULT));
                    emit(pp_op(format!("{}{}x{}", "(".repeat(n.saturating_sub(3)), sh.repeat(3), ")".repeat(n.saturating_sub(3))).as_bytes(), R_DEFAULT));
                    emit(pp_op(format!("{}({}x){}", "#(".repeat(n / 2), sh.repeat(n - n / 2 - 1), ")".repeat(n / 2)).as_bytes(), R_DEFAULT));
                }
                emit(pp_op(format!("{}x{}", "(a . ".repeat(n), ")".repeat(n)).as_bytes(), R_DEFAULT));
                emit(pp_op(format!("{}x{}", "[".repeat(n), "]".repeat(n)).as_bytes(), R_ELISP));
            }
            for text in PP_TEXTS { for ro in [R_DEFAULT, R_ELISP, "1110011111", "0101100010", "1100011111"] { emit(pp_op(text.as_bytes(), ro)); } }
            // byte vectors written as unibyte strings: every pair of octets (an escape followed by a digit, a quote, a backslash ...)
            for a in [0u8, 1, 7, 8, 27, 34, 48, 55, 56, 57, 65, 92, 127, 128, 200, 255] {
                for b in [0u8, 1, 9, 34, 48, 49, 55, 56, 57, 65, 92, 97, 102, 120, 127, 128, 255] {
                    for ro in [R_ELISP, "0012011001"] {
                        emit(pp_op(format!("#u8({} {})", a, b).as_bytes(), ro).replacen("pp ", "ppe ", 1));
                        emit(pp_op(format!("(#u8({} {} {}) x)", b, a, b).as_bytes(), ro).replacen("pp ", "ppe ", 1));
                    }
                }
            }
            // nil / t / () at the recursion limit, where the spelling the printer chooses may need one level more
            for n in 125..=128usize {
                for atom in ["nil", "t", "()", "#nil", "x"] {
                    for ro in [R_DEFAULT, R_ELISP, "0012000000"] {
                        emit(pp_op(format!("{}{}{}", "(".repeat(n), atom, ")".repeat(n)).as_bytes(), ro));
                        emit(pp_op(format!("{}{}{}", "[".repeat(n), atom, "]".repeat(n)).as_bytes(), ro));
                    }
                }
            }
            for text in PREFIX_TEXTS { for ro in [R_DEFAULT, R_ELISP, "1110011111", "0101100010"] { emit(pp_op(text.as_bytes(), ro)); } }
        }
        "escapes" => {
            // every byte in every escape / character position, both string and char syntaxes
            let ros = [R_DEFAULT, R_ELISP, "0011100100", "1101011010"];
            let shapes = ESC_SHAPES;
            for b in 0..=255u8 {
                for (pre, post) in shapes.iter() {
                    let mut t = pre.to_vec(); t.push(b); t.extend_from_slice(post);
                    for (k, ro) in ros.iter().enumerate() {
                        if count >= 2 || (b as usize + k) % 2 == 0 {
                            emit(parse_op("b", ro, "r:v:4", &t));
                        }
                        if (b as usize + k) % 4 == 0 {
                            emit(parse_op("i1", ro, "r:d:4", &t));
                            if std::str::from_utf8(&t).is_ok() { emit(parse_op("s", ro, "v1", &t)); }
                        }
                    }
                }
            }
            // multi-character escape bodies of both string syntaxes and of Emacs characters: values at and beyond every
            // limit (surrogates, 0x10FFFF / 0x110000, more than 24 bits), wrong digits, missing terminators — every
            // prefix of each, closed and unclosed, so that every error exit of the escape decoders is reached
            for body in ["x41;", "xD800;", "xDFFF;", "xE000;", "x10FFFF;", "x110000;", "x1000000;", "x10000000;", "xFFFFFFFF;", "x;", "x4g;", "x41", "xg;",
                         "xD800", "xD8000", "x110000", "x1000000", "x12345678", "154000", "1540000", "777", "7777777", "77777777777", "400", "8", "18",
                         "u0041", "uD800", "uDFFF", "u12G4", "u12", "U00000041", "U0000D800", "U00110000", "U01000000", "U10000000", "U0000004", "U000G0041",
                         "N{U+41}", "N{U+D800}", "N{U+D8000}", "N{U+110000}", "N{U+1000000}", "N{U+10000000}", "N{U+}", "N{U+4g}", "N{U-41}", "N{X+41}", "N[U+41}", "N{U+41", "N{LATIN}",
                         "^a", "^A", "^z", "^1", "^", "^?", "C-a", "M-a", "S-a", "s", "d", "e", " ", "\n"] {
                for k in 1..=body.len() {
                    if !body.is_char_boundary(k) { continue; }
                    for (pre, posts) in [("\"a\\", &["\"", "", "b\"", "0\""][..]), ("?\\", &["", " ", ")", "0"][..]), ("(?\\", &[")", ""][..])] {
                        for post in posts {
                            let t = format!("{}{}{}", pre, &body[..k], post);
                            for ro in [R_DEFAULT, R_ELISP, "0011100100"] {
                                if pre.starts_with('?') && ro == R_DEFAULT { continue; }
                                emit(parse_op("b", ro, "r:v:4", t.as_bytes()));
                                if k % 3 == 0 { emit(parse_op("i1", ro, "r:d:4", t.as_bytes())); emit(parse_op("s", ro, "v1", t.as_bytes())); }
                            }
                        }
                    }
                }
            }
            // ill-formed UTF-8 of every class (overlong 2-, 3- and 4-byte forms, surrogates, beyond U+10FFFF, invalid lead
            // bytes, stray and missing continuation bytes) and the valid boundary cases next to them, in every position
            // where a character can stand
            let seqs: &[&[u8]] = &[b"\xc0\x80", b"\xc1\xbf", b"\xc2\x80", b"\xdf\xbf", b"\xe0\x80\x80", b"\xe0\x9f\xbf", b"\xe0\xa0\x80", b"\xed\x9f\xbf", b"\xed\xa0\x80", b"\xed\xbf\xbf",
                b"\xee\x80\x80", b"\xef\xbf\xbf", b"\xf0\x80\x80\x80", b"\xf0\x88\x80\x80", b"\xf0\x8f\xbf\xbf", b"\xf0\x90\x80\x80", b"\xf4\x8f\xbf\xbf", b"\xf4\x90\x80\x80", b"\xf5\x80\x80\x80",
                b"\xf8\x88\x80\x80\x80", b"\xff", b"\x80", b"\xbf", b"\xce", b"\xe2\x82", b"\xf0\x9f\x98", b"\xce\x41", b"\xe2\x28\xa1", b"\xf0\x28\x8c\xbc", b"\xce\xbb", b"\xe2\x82\xac", b"\xf0\x9f\x98\x80"];
            for sq in seqs {
                for (pre, post) in [(&b"#\\"[..], &b""[..]), (b"#\\", b" x"), (b"(#\\", b")"), (b"?", b""), (b"?\\", b""), (b"(?", b" a)"), (b"", b""), (b"", b"x"), (b"a", b"b"), (b"(a", b")"), (b"\"", b"\""), (b"\"a\\n", b"b\""), (b"\"\\", b"\""), (b"#:", b""), (b":", b""), (b";", b"\na")] {
                    let mut t = pre.to_vec(); t.extend_from_slice(sq); t.extend_from_slice(post);
                    for ro in [R_DEFAULT, R_ELISP] {
                        emit(parse_op("b", ro, "r:v:4", &t));
                        emit(parse_op("i1", ro, "r:d:4", &t));
                    }
                }
            }
            // a backslash inside a multi-byte sequence (valid or not): the text is never valid UTF-8, whatever the
            // bytes on both sides of the backslash would make together
            for sq in seqs {
                for j in 1..sq.len() {
                    for (pre, post) in [(&b"\""[..], &b"\""[..]), (b"\"\xf0\x9f\x98\x80", b"z\""), (b"a", b""), (b"?", b""), (b"?\\", b""), (b"|", b"|"), (b"#:", b"")] {
                        let mut t = pre.to_vec(); t.extend_from_slice(&sq[..j]); t.push(b'\\'); t.extend_from_slice(&sq[j..]); t.extend_from_slice(post);
                        for ro in [R_DEFAULT, R_ELISP] {
                            emit(parse_op("b", ro, "r:v:4", &t));
                            if j == 1 { emit(parse_op("i1", ro, "r:d:4", &t)); }
                        }
                    }
                }
            }
            // part of a multi-byte sequence written raw and the rest as numeric escapes (hex, octal), both ways round:
            // the text is not valid UTF-8 although the bytes the string denotes may be
            for sq in seqs {
                if sq.len() < 2 { continue; }
                for j in 1..sq.len() {
                    // (style 2: the escaped blank, which denotes nothing, between the two parts)
                    for (style, raw_first) in [(0, true), (1, true), (0, false), (1, false), (2, true)] {
                        let esc = |bs: &[u8]| -> Vec<u8> { bs.iter().flat_map(|b| if style == 0 { format!("\\x{:02x}", b).into_bytes() } else { format!("\\{:o}", b).into_bytes() }).collect() };
                        let mid: Vec<u8> = if style == 2 { [sq[..j].to_vec(), b"\\ ".to_vec(), sq[j..].to_vec()].concat() } else if raw_first { [sq[..j].to_vec(), esc(&sq[j..])].concat() } else { [esc(&sq[..j]), sq[j..].to_vec()].concat() };
                        for (pre, post) in [(&b"\""[..], &b"\""[..]), (b"\"\xce\xbb", b"\\ z\"")] {
                            let t = [pre.to_vec(), mid.clone(), post.to_vec()].concat();
                            for ro in [R_DEFAULT, R_ELISP] { emit(parse_op("b", ro, "r:v:4", &t)); }
                            if j == 1 && style == 0 { emit(parse_op("i1", R_ELISP, "r:d:4", &t)); }
                        }
                    }
                }
            }
            // an error that stops inside a multi-byte character, then more calls on the same parser (all sources), and
            // malformed escapes followed by more data read through ONE kept iterator object
            for text in ["#é x", "\"\\é\" y", "#\\xé z", "#né w", "?\\^é v", "(a #é) b", "#\\x4g b c", "\"\\x4z;\" b c", "a #\\x4g b c", "(\"\\xg;\") d e"] {
                for ro in [R_DEFAULT, R_ELISP] {
                    for api in ["h:vvvv", "h:dddd", "h:vdvd", "r:i:6", "r:j:6", "r:p:6", "r:v:6", "r:d:6"] {
                        for src in ["s", "b", "i1"] { emit(parse_op(src, ro, api, text.as_bytes())); }
                    }
                }
            }
            // character names and their prefixes / extensions
            for name in ["nul", "alarm", "backspace", "tab", "linefeed", "newline", "vtab", "page", "return", "esc", "space", "delete", "null", "escape", "del", "x", "x41", "xD800", "xD8000", "x110000", "x10FFFF", "x0", "x00000041", "x1000000", "xg", "λ", "t", "f"] {
                for k in 0..=name.len() {
                    if !name.is_char_boundary(k) { continue; }
                    for tail in ["", " ", ")", "x", "#", "("] {
                        let t = format!("#\\{}{}", &name[..k], tail);
                        for ro in [R_DEFAULT, R_ELISP] { emit(parse_op("b", ro, "r:v:4", t.as_bytes())); }
                    }
                }
            }
        }
        "numshort" => {
            // every string of length <= 4 over the numeric alphabet (5 for count >= 2)
            let alpha: &[u8] = b"019.eE+-#xba";
            let maxlen = if count >= 2 { 5 } else { 4 };
            let mut cur: Vec<Vec<u8>> = vec![vec![]];
            for _ in 0..maxlen {
                let mut next = Vec::new();
                for w in &cur { for &c in alpha { let mut x = w.clone(); x.push(c); next.push(x); } }
                for w in &next { emit(parse_op("b", R_DEFAULT, "v1", w)); }
                cur = next;
            }
            for w in cur.iter().step_by(7) { emit(parse_op("b", "0011100001", "r:v:3", w)); }
        }
        "chars" => {
            // print and round trip of every character up to U+2FF plus boundary scalars, alone, in a
            // one-character string, symbol and as list / vector elements, default and Emacs pairs
            let mut cps: Vec<u32> = (0..0x300).collect();
            cps.extend([0x7ff, 0x800, 0xd7ff, 0xe000, 0xfffd, 0xfffe, 0xffff, 0x10000, 0x1f600, 0x10ffff, 0x2028, 0x3bb]);
            for cp in cps {
                let c = match char::from_u32(cp) { Some(c) => c, None => continue };
                for (p, ro) in [(P_DEFAULT, R_DEFAULT), (P_ELISP, R_ELISP), ("2100110", "0011110100"), ("2100101", "0011101100")] {
                    let vs = [Value::Char(c), Value::string(c.to_string()), Value::list(vec![Value::Char(c), Value::symbol("a")]), Value::Vector(vec![Value::string(format!("a{}b", c)), Value::Char(c)].into())];
                    for v in &vs {
                        emit(format!("rt {} {} {} {}", p, ro, fast_flag(), enc_value_text(v)));
                    }
                    if cp < 0x100 || cp % 16 == 0 { emit(format!("print {} {}", p, enc_value_text(&vs[1]))); }
                }
            }
        }
        "rtwide" => {
            // round trips of wide, shallow values: many sibling compounds of every kind in one value
            let kinds: Vec<Value> = vec![
                Value::Vector(vec![].into()), Value::Vector(vec![Value::symbol("x")].into()), Value::list(vec![Value::symbol("x")]), Value::Null,
                Value::list(vec![Value::symbol("quote"), Value::symbol("x")]), Value::bytes(vec![1u8, 2]), Value::cons(Value::symbol("a"), Value::symbol("b")),
                Value::Vector(vec![Value::Vector(vec![Value::from(1)].into())].into()), Value::string("s"), Value::cons(Value::from(1), Value::Vector(vec![].into())),
            ];
            for k in &kinds {
                for n in [126usize, 127, 128, 200, 300] {
                    let xs: Vec<Value> = (0..n).map(|_| k.clone()).collect();
                    let alist = Value::list(xs.iter().enumerate().map(|(i, x)| Value::cons(Value::symbol(format!("k{}", i)), x.clone())).collect::<Vec<_>>());
                    for v in [Value::list(xs.clone()), Value::Vector(xs.clone().into()), alist] {
                        emit(format!("rt {} {} {} {}", P_DEFAULT, R_DEFAULT, fast_flag(), enc_value_text(&v)));
                        if n == 128 { emit(format!("rt {} {} {} {}", P_ELISP, R_ELISP, fast_flag(), enc_value_text(&v))); }
                    }
                }
            }
        }
        "deep" => {
            let openers: &[&str] = &["(", "[", "#(", "'", "`", ",", ",@", "(a . ", "#u8(", "(a "];
            for &n in &[1usize, 50, 100, 126, 127, 128, 129, 130, 200, 255, 256, 257, 300, 383, 384, 512, 520, 1000, 65536 + 5] {
                for o in openers {
                    for ro in [R_DEFAULT, R_ELISP] {
                        let mut t = o.repeat(n);
                        emit(parse_op("b", ro, "v1", t.as_bytes()));
                        t.push_str("x");
                        for _ in 0..n { t.push_str(if *o == "[" { "]" } else if o.contains('(') { ")" } else { "" }); }
                        emit(parse_op("b", ro, "v1", t.as_bytes()));
                        emit(parse_op("i0", ro, "d1", t.as_bytes()));
                    }
                }
                // mixtures
                for _ in 0..4 {
                    let mut t = String::new();
                    let mut closers = Vec::new();
                    for _ in 0..n {
                        let o = *r.pick(&["(", "[", "#(", "'", "`", ",", ",@"]);
                        t.push_str(o);
                        closers.push(match o { "(" | "#(" => ")", "[" => "]", _ => "" });
                    }
                    t.push('x');
                    for c in closers.iter().rev() { t.push_str(c); }
                    emit(parse_op("b", R_DEFAULT, "v1", t.as_bytes()));
                    emit(parse_op("b", R_DEFAULT, "d1", t.as_bytes()));
                }
            }
            // many sibling compounds in one parse and in one parser's history: the depth budget must
            // come back after every compound, successful or not, in both parsers
            let sibs: &[(&str, &str)] = &[("#(x)", R_DEFAULT), ("#()", R_DEFAULT), ("(x)", R_DEFAULT), ("()", R_DEFAULT), ("[x]", R_DEFAULT), ("[x]", R_ELISP), ("[]", R_ELISP),
                ("'x", R_DEFAULT), (",@x", R_DEFAULT), ("`(,x)", R_DEFAULT), ("#u8(1)", R_DEFAULT), ("(a . b)", R_DEFAULT), ("(a . (b))", R_DEFAULT), ("(a . #(b))", R_DEFAULT), ("#(#(x))", R_DEFAULT),
                ("'#z", R_DEFAULT), ("(#z", R_DEFAULT), ("#(#z", R_DEFAULT), ("(a . #z", R_DEFAULT), ("#(", R_DEFAULT), ("(]", R_DEFAULT), ("'", R_DEFAULT), ("#(x]", R_DEFAULT), ("')", R_DEFAULT)];
            for (sib, ro) in sibs {
                for n in [126usize, 127, 128, 129, 200] {
                    let flat = format!("{} ", sib).repeat(n);
                    for api in ["v1", "d1"] {
                        emit(parse_op("b", ro, api, format!("({})", flat).as_bytes()));
                        emit(parse_op("b", ro, api, format!("#({})", flat).as_bytes()));
                    }
                    if n == 129 || n == 200 {
                        // ... and one nested exactly 100 levels, which C03 promises is accepted
                        let nest100 = format!("{}x{}", "(".repeat(100), ")".repeat(100));
                        for api in ["v", "d", "i", "j", "p"] {
                            for k in [30usize, n] {
                                emit(parse_op("b", ro, &format!("r:{}:{}", api, k + 3), format!("{}{}", format!("{} ", sib).repeat(k), nest100).as_bytes()));
                            }
                        }
                        let nest = format!("{}x{}", "(".repeat(126), ")".repeat(126));
                        for api in ["v", "d", "i", "j", "p"] {
                            // the siblings, then a value nested to just below the limit, on one parser
                            emit(parse_op("b", ro, &format!("r:{}:{}", api, n + 3), format!("{}{}", flat, nest).as_bytes()));
                        }
                        emit(parse_op("i7", ro, &format!("r:v:{}", n + 3), format!("{}{}", flat, nest).as_bytes()));
                    }
                }
            }
            // iterating past recursion-limit errors
            let t = "(".repeat(20000);
            emit(parse_op("b", R_DEFAULT, "r:v:400", t.as_bytes()));
            let t = "#(".repeat(10000);
            emit(parse_op("b", R_DEFAULT, "r:d:400", t.as_bytes()));
            let t = "'".repeat(20000);
            emit(parse_op("b", R_DEFAULT, "r:p:400", t.as_bytes()));
        }
        #[cfg(feature = "full")]
        "serde" | "deser" => crate::serde_ops::generate(family, &mut r, count, emit),
        // hand-written Clone / PartialEq / Drop of Cons and SpanInfo, mutators, iterator accessors (cons_ops.rs)
        "consops" => crate::cons_ops::generate(&mut r, count, emit),
        _ => panic!("unknown family {}", family),
    }
}

pub const ESC_SHAPES: &[(&[u8], &[u8])] = &[
                (b"\"\\", b"\""), (b"\"\\", b"41;\""), (b"\"a\\", b"1b\""), (b"?\\", b""), (b"?\\", b"41"), (b"?", b""), (b"?", b"a"),
                (b"#\\", b""), (b"#\\", b"x"), (b"#\\x", b""), (b"#\\x4", b""), (b"\"\\x", b";\""), (b"\"\\x4", b";\""), (b"\"\\u00", b"0\""),
                (b"\"\\N{U+", b"}\""), (b"\"\\N{U+4", b"\""), (b"\"\\^", b"\""), (b"?\\^", b""), (b"?\\N{U+4", b"}"), (b"\"\\1", b"\""), (b"?\\1", b""),
                (b"\"\\U0000004", b"\""), (b"(a .", b"c)"), (b"-", b"x"), (b"+.", b""), (b"1", b""), (b"1.", b"5"), (b"1e", b"5"), (b"#", b""), (b"#", b"a"), (b"a", b"b"), (b",", b"a"),
            
    (b"ab", b" "), (b"(ab", b")"), (b"#(-a\xf0\x9f", b")"), (b"a\xe2", b" "), (b"(a . b", b")"), (b"\"caf\xc3\xa9\\x0", b"\""), (b"\"\xce\xbb\\", b"\""), (b"'", b"a"), (b"' ", b""),
];

fn pp_op(text: &[u8], ro: &str) -> String {
    // (an empty payload would be a missing field of the line protocol: the empty input is a single blank here)
    let text: &[u8] = if text.is_empty() { b" " } else { text };
    let mut tab: Vec<String> = Vec::new();
    if let Ok(v) = lexpr::from_slice_custom(text, parse_opts(ro)) {
        float_table(&v, &mut tab);
        if let Ok(t1) = lexpr::to_vec_custom(&v, print_opts(&crate::ops::pof(ro))) {
            if let Ok(v2) = lexpr::from_slice_custom(&t1, parse_opts(ro)) { float_table(&v2, &mut tab); }
        }
    }
    format!("pp {} {} {} {}", ro, fast_flag(), hex(text), tab.join(" "))
}

pub const PREFIX_TEXTS: &[&str] = &[
    "#nil", "#t", "#f", "#x1F", "#b-101", "#o+17", "#d42", "1.5", "1e21", "1.5e+10", "-2.5E-3", "#\\newline", "#\\x41",
    "#\\space", "#\\a", "#\\λ", "\"a\\x41;b\"", "\"\\n\\t\\\\\"", "#u8(1 2 255)", "#vu8(0)", "'a", "`(a ,b ,@c)", "λx", "aλ",
    "(a . b)", "#(1 #(2))", "#u8(#xFF 1 #b101 #o7 #d9)", "#vu8(#x-0 +5)", "#:kw", "(1 #x10)", "\"λ\"", ".5x", "...", "+.x", "(.x)", "(a .b)", "#\\xD8000", "#\\delete",
    // Emacs numeric escapes whose value passes through the surrogate range while being read (repaired by f34310f)
    "\"\\xD8000\"", "?\\xD8000", "\"\\1540000\"", "?\\1540000", "\"\\N{U+D8000}\"", "?\\N{U+D8000}", "(?\\xDFFF0 \"\\xdbff0\")",
    "?a", "?\\^a", "?\\N{U+41}", "?\\u00e9", "?\\x41", "?\\101", "\"\\u00e9\\101\"", "[1 2]", ":kw", "\"\\N{U+3bb}\"", "\"\\^a\"",
];

pub const PP_TEXTS: &[&str] = &[
    "#x1F", "#b101", "#o17", "#d10", "#e1", "007", "1.50", "1e3", "1E3", "0.1e1", "+5", "-0", "-0.0", "\"\\x41;\"", "\"\\a\\b\\f\\v\\|\"",
    "#\\newline", "#\\nul", "#\\x41", "#\\x", "#\\linefeed", "[a b]", "(a . (b c))", "(a . (b . c))", "'a", "`(a ,b ,@c)", "''a",
    "a#b", "a\"b\"", "x|y", ".5", "..", "1+", "#%a", "+a", "-", "#vu8(1 2)", "#u8 (1)", "(quote a)", "(quote . a)", "#:", "#: a",
    "\"\\u00e9\"", "?a", "?\\(", "nil", "t", ":a", "a:", "(a.b)", "(a .b)", "#(1 . 2)", "18446744073709551616", "-9223372036854775809",
    "#x10000000000000000", "1e400", "#true", "#false", "#t#f", "(#t#f)", "a;c\nb", "\"a\nb\"", "#\\(", "#\\ ", "#\\;x",
    "'.|a", "'.\"x", "`.|a", ",@.|a", "(x . .|a)", "#(.|a)", ".|a", "'.a", "(a '.|b)", "'+|a", "'a|b", "'a\"b\"",
    ".:", "(a .:)", "(.: a)", "..:", "'.:", "#(.:)", ":.", "#:.", "(a . .:)", "'.\"x\"",
];

pub const TOKEN_CORPUS: &[&str] = &[
    "nil", "nil:", "nilx", "t", "tt", "T", "NIL", ":a", "a:", ":a:", "::", ":", "#:a", "#:", "#:a:", "1+", "1-", "1/2", "1.5.6", "0x10", "12ab", "1e3",
    "1", "12", "1.5", "-1", "+1", "-", "+", "-a", "+a:", "1a", "1:", "9z:", "?a", "?\\(", "?", "?:", "#%a", "#%", "#%a:", "a", "ab", "λ", "λ:", "$x", "$x:",
    ".a", ".a:", "...", "'a", "`a", ",a", ",@a", "'nil", "'t", "#t", "#f", "#nil", "\"s\"", "#\\a", "(a)", "[a]", "[a b]", "()", "[]", "#(a)", "nil.t", "a.b",
    "1e", "1.", "-.5", "+.a", "12:", "1e3:", "a::", "x:y", "#x1F", "#b2",
    "+.a:", "-.foo:", "+..:", "-.:", "-a:", "...:", "..a:", "+:", "-:", "1#t", "#x1F#t", "-5#t", "1.5#f", "1|", "a#t", "+.5:", "-.5a", ".5:", "#t:", "'a:", "?a:", "#\\a:",
    // shorthands directly after one another, in every order; number prefixes running into bytes that end a number but not a symbol
    "1e999", "2.5e+310", "-1e999", "t|", "t\"a\"", "nil|", "nil\"a\"", "t|x", "tt|", "#t|", "'`a", "`'a", ",'a", "',a", ",@'a", "',@a", "`,@a", "`,a", "''a", ",,a", "'`,a", ",@`'a", "12|x", "3\"a\"", "12|x:", "1e3\"s\"", "-7|", "+1.5|a", "#x1F|", "1.5e3|x",
];

pub const POSITIONS: &[&str] = &["@", "(\n @)", "(@ x)", "(x @)", "(x . @)", "#(@)", "#(x @)", "[@]", "[x @]", "(@)", "(x @ y)", " @ ", "@;c", "'@", "(x . @ )", "[x . @]", "@\n", "@\x0c", "@\"s\"", "@|"];

pub fn interesting_bytes() -> Vec<u8> {
    let mut v: Vec<u8> = b" \n\t\r\x0c()[]\"';`,.#\\|:?+-09aefnxtuUNv8%@_{}~!*^\x00\x7f\x01".to_vec();
    v.extend_from_slice(&[0x80, 0xbb, 0xc0, 0xc2, 0xce, 0xe2, 0xed, 0xf0, 0xf4, 0xf5, 0xff]);
    v
}

pub fn value_basis() -> Vec<Value> {
    let mut v = vec![
        Value::Nil, Value::Null, Value::Bool(true), Value::Bool(false), Value::from(0u8), Value::from(-1), Value::from(u64::MAX), Value::from(i64::MIN),
        Value::from(1.5), Value::from(1e21), Value::from(-0.0), Value::from(5e-324), Value::Char('a'), Value::Char('('), Value::Char(' '), Value::Char('\n'),
        Value::Char('λ'), Value::Char('\u{10ffff}'), Value::Char('\\'), Value::Char('.'), Value::Char(';'), Value::Char('"'), Value::Char('#'), Value::Char('\u{7f}'), Value::Char('x'),
        Value::string(""), Value::string("a\"b\\c\n\t\r\u{7}\u{8}\u{1}\u{7f}λ😀"), Value::string("\u{0}\u{1f}"), Value::symbol("a"), Value::symbol("+"), Value::symbol("-"), Value::symbol("..."),
        Value::symbol("λx"), Value::symbol("foo-bar"), Value::symbol("+.x"), Value::keyword("kw"), Value::keyword("λ"), Value::keyword("$x"), Value::keyword("+"),
        // keywords whose names are the reserved words: every keyword spelling is recognised before the nil/t rule
        Value::keyword("nil"), Value::keyword("t"), Value::keyword("nile"), Value::symbol("nil"), Value::symbol("t"),
        // digit-initial names: symbols for a reader with leading-digit symbols (the Emacs Lisp preset), not plain elsewhere
        Value::symbol("1+"), Value::symbol("2nd"), Value::symbol("3d-mode"), Value::keyword("1st"),
        Value::bytes(vec![]), Value::bytes(vec![0u8, 1, 127, 128, 255]), Value::bytes(vec![65u8]),
    ];
    let atoms = v.clone();
    // every atom as last element of a list, of a vector, and as a dotted tail
    for a in &atoms {
        v.push(Value::list(vec![Value::symbol("x"), a.clone()]));
        v.push(Value::Vector(vec![Value::symbol("x"), a.clone()].into()));
        if !a.is_null() {
            v.push(Value::append(vec![Value::symbol("x")], a.clone()));
            v.push(Value::Vector(vec![Value::append(vec![Value::symbol("x")], a.clone())].into()));
        }
        v.push(Value::list(vec![a.clone(), Value::symbol("x")]));
    }
    v.push(Value::list(vec![Value::Vector(vec![Value::list(vec![Value::from(1)]), Value::Vector(vec![].into())].into())]));
    v.push(Value::Vector(vec![].into()));
    v
}

pub fn gen_sched(r: &mut Rng, len: usize) -> String {
    let mut s = match r.below(4) {
        0 => "k1".to_string(),
        1 => format!("k{}", 1 + r.below(4)),
        2 => format!("k{}", 1000),
        _ => format!("r{}", r.below(100000)),
    };
    match r.below(7) {
        0 => s.push_str(&format!(",f{}", r.below(len + 2))),
        1 => s.push_str(&format!(",z{}", r.below(len + 2))),
        // a sink that refuses one write and accepts later ones
        2 => s.push_str(&format!(",F{}", r.below(len + 2))),
        3 => s.push_str(&format!(",Z{}", r.below(len + 2))),
        _ => {}
    }
    if r.chance(1, 3) {
        s.push_str(&format!(",i{}", r.below(100000)));
    }
    s
}

pub fn gen_prim(r: &mut Rng, near: Option<&Value>) -> String {
    // a primitive, often equal / near to the value's payload
    if let Some(v) = near {
        if r.chance(2, 3) {
            if let Some(n) = v.as_u64() {
                // the payload reinterpreted in a signed or narrower type (what an `as` cast would produce)
                if r.chance(1, 4) {
                    return match r.below(6) {
                        0 => format!("i64:{}", n as i64),
                        1 => format!("i32:{}", n as i32),
                        2 => format!("i16:{}", n as i16),
                        3 => format!("i8:{}", n as i8),
                        4 => format!("u32:{}", n as u32),
                        _ => format!("u8:{}", n as u8),
                    };
                }
                return match r.below(6) {
                    0 if n <= u8::MAX as u64 => format!("u8:{}", n),
                    1 if n <= u16::MAX as u64 => format!("u16:{}", n),
                    2 if n <= u32::MAX as u64 => format!("u32:{}", n),
                    3 if n <= i64::MAX as u64 => format!("i64:{}", n),
                    4 => format!("f64:{:016x}", (n as f64).to_bits()),
                    _ => format!("u64:{}", n),
                };
            }
            if let Some(n) = v.as_i64() {
                if r.chance(1, 4) {
                    return match r.below(5) {
                        0 => format!("u64:{}", n as u64),
                        1 => format!("u32:{}", n as u32),
                        2 => format!("u8:{}", n as u8),
                        3 => format!("i8:{}", n as i8),
                        _ => format!("i32:{}", n as i32),
                    };
                }
                return match r.below(5) {
                    0 if n >= i8::MIN as i64 && n <= i8::MAX as i64 => format!("i8:{}", n),
                    1 if n >= i16::MIN as i64 && n <= i16::MAX as i64 => format!("i16:{}", n),
                    2 if n >= i32::MIN as i64 && n <= i32::MAX as i64 => format!("i32:{}", n),
                    3 => format!("f64:{:016x}", (n as f64).to_bits()),
                    _ => format!("i64:{}", n),
                };
            }
            if let Some(f) = v.as_f64() {
                return match r.below(3) {
                    0 => format!("f32:{:08x}", (f as f32).to_bits()),
                    1 if f.fract() == 0.0 && f.abs() < 1e18 => format!("i64:{}", f as i64),
                    _ => format!("f64:{:016x}", f.to_bits()),
                };
            }
            if let Some(b) = v.as_bool() {
                return format!("b:{}", b as u8);
            }
            if let Some(s) = v.as_name() {
                return format!("s:{}", hex(s.as_bytes()));
            }
        }
    }
    match r.below(14) {
        0 => format!("i8:{}", *r.pick(&[i8::MIN, -1, 0, 1, i8::MAX, 42])),
        1 => format!("i16:{}", *r.pick(&[i16::MIN, -129, -1, 0, 128, i16::MAX])),
        2 => format!("i32:{}", *r.pick(&[i32::MIN, -32769, -1, 0, 32768, i32::MAX])),
        3 => format!("i64:{}", boundary_i64(r)),
        4 => format!("u8:{}", *r.pick(&[0u8, 1, 127, 128, 255])),
        5 => format!("u16:{}", *r.pick(&[0u16, 255, 256, 32767, 32768, 65535])),
        6 => format!("u32:{}", *r.pick(&[0u32, 65535, 65536, i32::MAX as u32, i32::MAX as u32 + 1, u32::MAX])),
        7 => format!("u64:{}", boundary_u64(r)),
        8 => format!("f32:{:08x}", match r.below(3) { 0 => r.next() as u32, 1 => *r.pick(&[0u32, 0x80000000, 0x3f800000, 0x7f800000, 0xff800000, 0x7fc00000, 1, 0x7f7fffff, 0x00800000, 0x3dcccccd]), _ => (gen_f64(r) as f32).to_bits() }),
        9 => format!("f64:{:016x}", gen_f64(r).to_bits()),
        10 => format!("b:{}", r.below(2)),
        11 => format!("s:{}", hex(gen_string(r, 6).as_bytes())),
        12 => format!("c:{:x}", gen_char(r) as u32),
        _ => format!("y:{}", hex(&(0..r.below(5)).map(|_| r.below(256) as u8).collect::<Vec<u8>>())),
    }
}

fn digits(r: &mut Rng, radix: u32, n: usize) -> String {
    (0..n).map(|_| {
        let d = r.below(radix as usize) as u32;
        let c = std::char::from_digit(d, radix).unwrap();
        if r.chance(1, 2) { c.to_ascii_uppercase() } else { c }
    }).collect()
}

pub fn gen_num_literal(r: &mut Rng) -> String {
    let sign = *r.pick(&["", "", "-", "+"]);
    match r.below(16) {
        15 => {
            // radix literals at the very top of the range of a double: 1024 significant bits, the leading ones all set
            // (the significand rounds up to 2^64), and their neighbours
            let ones = *r.pick(&[1023usize, 1024, 1025, 960, 1000]);
            let lit = match r.below(3) {
                0 => format!("#x{}", "f".repeat(ones / 4)),
                1 => format!("#b{}", "1".repeat(ones)),
                _ => format!("#o{}{}", r.pick(&["1", "3", "7", ""]), "7".repeat(ones / 3)),
            };
            format!("{}{}", lit, r.pick(&["", "", "0", "e"]))
        }
        14 => {
            // a radix literal too long for 64 bits that runs into a fraction, an exponent or a digit of another radix
            let (prefix, radix, n) = *r.pick(&[("#b", 2u32, 66usize), ("#o", 8, 24), ("#x", 16, 18), ("#d", 10, 22), ("#b", 2, 200), ("#o", 8, 23)]);
            let tail = *r.pick(&[".5", "e5", "E-3", ".", "2", "8", "9", "g", "a", "f", "", "#t", "+1"]);
            format!("{}{}1{}{}", prefix, sign, digits(r, radix, n), tail)
        }
        13 => {
            // a long run of zeros compensated by a large written exponent: the value is moderate although the
            // exponent has four digits (or the significand hundreds of digits)
            let n = *r.pick(&[90usize, 99, 100, 101, 300, 330, 700, 999, 1000, 1001, 1100, 1200, 1300]);
            let k = r.below(40) as i64 - 20;
            let nd = 1 + r.below(5);
            let d = digits(r, 10, nd);
            if r.chance(1, 2) {
                format!("{}{}{}{}{}", sign, d.trim_start_matches('0').to_string() + "1", "0".repeat(n), r.pick(&["e-", "E-"]), n as i64 + k)
            } else {
                format!("{}0.{}{}1{}{}", sign, "0".repeat(n), d, r.pick(&["e", "e+", "E"]), (n as i64 + k).max(0))
            }
        }
        12 => {
            // exponents at the edge of i32 combined with mantissas that carry an exponent of their own
            let a = *r.pick(&[1usize, 1, 2, 19, 20, 21, 25, 40]);
            let int = if r.chance(1, 4) { "0".to_string() } else { digits(r, 10, a) };
            let (n1, n2, z) = (1 + r.below(3), 1 + r.below(25), r.below(4));
            let frac = match r.below(4) { 0 => String::new(), 1 => format!(".{}", digits(r, 10, n1)), 2 => format!(".{}{}", "0".repeat(z), digits(r, 10, n2)), _ => ".0".to_string() };
            let e = *r.pick(&[2147483647u64, 2147483646, 2147483648, 2147483649, 2147483640, 2147483600, 4294967295, 4294967296, 4294967297, 99999999999, 9223372036854775807, 2147483627, 2147483628, 1073741824]);
            let e = if r.chance(1, 4) { e - r.below(40) as u64 } else { e };
            format!("{}{}{}{}{}{}", sign, int, frac, r.pick(&["e", "E"]), r.pick(&["", "+", "-", "-"]), e)
        }
        0 => {
            // integer at a 64-bit boundary in some radix
            let n = boundary_u64(r) as u128 + *r.pick(&[0u128, 0, 1, u64::MAX as u128, 1 << 63]);
            let radix = *r.pick(&[2u32, 8, 10, 16]);
            let prefix = match radix { 2 => "#b", 8 => "#o", 16 => "#x", _ => if r.chance(1, 2) { "#d" } else { "" } };
            let zeros = "0".repeat(r.below(3));
            let body = match radix { 2 => format!("{:b}", n), 8 => format!("{:o}", n), 16 => if r.chance(1, 2) { format!("{:x}", n) } else { format!("{:X}", n) }, _ => format!("{}", n) };
            format!("{}{}{}{}", prefix, sign, zeros, body)
        }
        1 => {
            let radix = *r.pick(&[2u32, 8, 10, 16]);
            let prefix = match radix { 2 => "#b", 8 => "#o", 16 => "#x", _ => "#d" };
            let n = 1 + r.below(if radix == 2 { 1100 } else { 400 });
            format!("{}{}{}", prefix, sign, digits(r, radix, n))
        }
        2 => { let n = 1 + r.below(400); format!("{}{}", sign, digits(r, 10, n)) }
        3 => { let f = gen_f64(r); if f.is_finite() { ryu_text(f) } else { "1e21".into() } }
        4 => {
            let a = 1 + r.below(25); let b = 1 + r.below(25);
            let e = if r.chance(1, 2) { let e1 = *r.pick(&["e", "E"]); let e2 = *r.pick(&["", "+", "-"]); format!("{}{}{}", e1, e2, r.below(400)) } else { String::new() };
            let x = digits(r, 10, a); let y = digits(r, 10, b);
            format!("{}{}.{}{}", sign, x, y, e)
        }
        5 => { let n = 1 + r.below(22); let dg = digits(r, 10, n); let e = *r.pick(&["e", "E"]); let sg = *r.pick(&["", "+", "-"]); format!("{}{}{}{}{}", sign, dg, e, sg, r.below(30)) }
        6 => {
            // digits fit 2^53, |exponent| <= 22: the exactness region
            let m = r.next() % (1u64 << 53);
            format!("{}{}e{}", sign, m, r.below(45) as i64 - 22)
        }
        7 => {
            // halfway cases: 2^53 + 1, etc.
            let k = 53 + r.below(11);
            let n = (1u128 << k) + (1u128 << (k - 53)) + *r.pick(&[0u128, 1]);
            format!("{}{}.0", sign, n)
        }
        8 => format!("{}{}e{}", sign, 1 + r.below(9), *r.pick(&[-324i32, -323, -322, -308, -307, 307, 308, 309, 400, -400, 2147483647, -2147483647, 22, 23, -22, -23])),
        9 => { let z = r.below(330); let n = 1 + r.below(20); format!("{}0.{}{}", sign, "0".repeat(z), digits(r, 10, n)) }
        10 => { let a = 1 + r.below(30); let b = 1 + r.below(12); let x = digits(r, 10, a); let y = digits(r, 10, b); format!("{}{}e{}", sign, x, y) }
        _ => r.pick(&["1e21", "5e-324", "1e16", "1e-7", "1e3", "1.7976931348623157e308", "1.7976931348623157081452742373e308", "1.7976931348623158e308", "-0", "-00", "#x-0", "#b-00", "#o-0", "#d-0", "+0", "-0.0", "1.7976931348623159e308", "2e308", "4.9e-324", "2.4e-324", "2.5e-324", "0e999999999999", "1e-999999999999", "0.0e5", "00", "-0", "1E5", "1.0E+5", "9007199254740993", "9007199254740993.0", "18446744073709551615", "18446744073709551616", "-9223372036854775808", "-9223372036854775809", "#x-8000000000000000", "#xFFFFFFFFFFFFFFFF", "#x10000000000000000", "#b1e1", "#x1e1", "#d1e1", "#o18", "#b12", "#xg", "1.5e", "1.e5", ".5", "1..5", "1e5.5", "1e5e5", "123456789012345678901234567890", "0.1", "0.2", "0.3", "179769313486231570000000000000000000000000000000000000000000000000000000000000000000000000000000000000000000000000000000000000000000000000000000000000000000000000000000000000000000000000000000000000000000000000000000000000000000000000000000000000000000000000000000000000000000000000000000000000000000000"]).to_string(),
    }
}
